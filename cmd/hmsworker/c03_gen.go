package main

// Base program families of C03: index-addressable families of WELL-TYPED programs, each
// exhaustive within its (tier dependent) bounds. Every program is re-checked by reftype
// before use; a generator that emits an ill-typed program is reported as a harness error.

import (
	"fmt"

	"hmsverif/internal/hs"
)

// ---------------------------------------------------------------- type universe

// tyd describes one type of the universe together with constants of that type.
type tyd struct {
	name   string
	t      *hs.Type // the type as written (structural)
	val    func(k int) hs.Expr
	depth  int
	hasFn  bool
	anyLit func() hs.Expr // a constant that only fits with an annotation (none, [])
}

func (d tyd) konst() bool { return !d.hasFn }

func c03Prims(tier string) []tyd {
	ps := []tyd{
		{name: "int", t: hs.TInt, val: func(k int) hs.Expr { return hs.I(int64(1 + k)) }},
		{name: "float", t: hs.TFloat, val: func(k int) hs.Expr { return hs.F(1.5 + float64(k)) }},
		{name: "bool", t: hs.TBool, val: func(k int) hs.Expr { return hs.B(k%2 == 0) }},
		{name: "str", t: hs.TStr, val: func(k int) hs.Expr { return hs.S([]string{"a", "b", "c"}[k%3]) }},
	}
	if tier == "all" {
		ps = append(ps,
			tyd{name: "range", t: hs.TRange, val: func(k int) hs.Expr { return &hs.RangeLit{From: hs.I(0), To: hs.I(int64(2 + k))} }},
			tyd{name: "anyobj", t: hs.TAnyObj, val: func(k int) hs.Expr { return &hs.AnyObjLit{} }},
		)
	}
	return ps
}

func tList(d tyd) tyd {
	return tyd{name: "[" + d.name + "]", t: hs.TList(d.t), depth: d.depth + 1, hasFn: d.hasFn,
		val: func(k int) hs.Expr {
			if k%2 == 0 {
				return hs.List(d.val(0))
			}
			return hs.List(d.val(1), d.val(0))
		},
		anyLit: func() hs.Expr { return hs.List() }}
}
func tOpt(d tyd) tyd {
	return tyd{name: "?" + d.name, t: hs.TOpt(d.t), depth: d.depth + 1, hasFn: d.hasFn,
		val:    func(k int) hs.Expr { return hs.Un("?", d.val(k)) },
		anyLit: func() hs.Expr { return &hs.NoneLit{} }}
}
func tObj1(d tyd) tyd {
	return tyd{name: "{a:" + d.name + "}", t: hs.TObj(hs.Field{Name: "a", T: d.t}), depth: d.depth + 1, hasFn: d.hasFn,
		val: func(k int) hs.Expr { return &hs.ObjLit{Fields: []hs.ObjField{{Name: "a", X: d.val(k)}}} }}
}
func tObj2(d, e tyd) tyd {
	dep := d.depth
	if e.depth > dep {
		dep = e.depth
	}
	return tyd{name: "{a:" + d.name + ",b:" + e.name + "}", t: hs.TObj(hs.Field{Name: "a", T: d.t}, hs.Field{Name: "b", T: e.t}), depth: dep + 1, hasFn: d.hasFn || e.hasFn,
		val: func(k int) hs.Expr {
			return &hs.ObjLit{Fields: []hs.ObjField{{Name: "a", X: d.val(k)}, {Name: "b", X: e.val(k)}}}
		}}
}
func tFn0(d tyd) tyd {
	return tyd{name: "fn()->" + d.name, t: hs.TFn(d.t), depth: d.depth + 1, hasFn: true,
		val: func(k int) hs.Expr { return &hs.FnLit{Ret: d.t, Body: hs.Blk(d.val(k))} }}
}
func tFn1(p, d tyd) tyd {
	dep := d.depth
	if p.depth > dep {
		dep = p.depth
	}
	return tyd{name: "fn(" + p.name + ")->" + d.name, t: hs.TFn(d.t, hs.Field{Name: "x", T: p.t}), depth: dep + 1, hasFn: true,
		val: func(k int) hs.Expr {
			return &hs.FnLit{Params: []hs.Field{{Name: "x", T: p.t}}, Ret: d.t, Body: hs.Blk(d.val(k))}
		}}
}

var c03UniverseMemo = map[string][]tyd{}

// c03Universe: every type built from the primitive types with the constructors list,
// option, object (one and two fields), fn() -> T and fn(x: P) -> T, up to depth 2.
func c03Universe(tier string) []tyd {
	if u, ok := c03UniverseMemo[tier]; ok {
		return u
	}
	prims := c03Prims("all")
	intD := prims[0]
	level := func(inner []tyd) []tyd {
		var out []tyd
		for _, d := range inner {
			out = append(out, tList(d), tOpt(d), tObj1(d), tObj2(intD, d), tFn0(d), tFn1(intD, d))
			if tier == "thorough" {
				out = append(out, tFn1(prims[3], d), tObj2(d, prims[3]))
			}
		}
		return out
	}
	d1 := level(prims)
	d2 := level(d1)
	u := append(append(append([]tyd{}, prims...), d1...), d2...)
	c03UniverseMemo[tier] = u
	return u
}

// ---------------------------------------------------------------- small builders

func mainFn(stmts ...hs.Stmt) *hs.Func { return hs.Fn("main", nil, hs.Blk(nil, stmts...)) }

func single(p *hs.Program, tags ...string) *c03Case {
	return &c03Case{Mods: map[string]*hs.Program{"main": p}, Tags: tags}
}

func withLib(p, lib *hs.Program, tags ...string) *c03Case {
	return &c03Case{Mods: map[string]*hs.Program{"main": p, "lib": lib}, Tags: tags}
}

func libProg() *hs.Program {
	return &hs.Program{Funcs: []*hs.Func{mainFn()}}
}

func use(name string) hs.Stmt { return hs.Println(hs.V(name)) }

func fnLit(ret *hs.Type, body *hs.Block, ps ...hs.Field) *hs.FnLit {
	return &hs.FnLit{Params: ps, Ret: ret, Body: body}
}

// ---------------------------------------------------------------- family: types

const nTypeForms = 27

func c03TypesCase(tier string, idx int) *c03Case {
	u := c03Universe(tier)
	d := radix(idx, nTypeForms, len(u))
	form, T := d[0], u[d[1]]
	v0, v1 := T.val(0), T.val(1)
	tags := []string{"type:" + T.name, fmt.Sprintf("form:%d", form), fmt.Sprintf("depth:%d", T.depth)}
	p := &hs.Program{}
	switch form {
	case 0: // inferred let
		p.Funcs = append(p.Funcs, mainFn(hs.LetS("x", v0), hs.LetS("y", hs.V("x")), use("y")))
	case 1: // annotated let
		p.Funcs = append(p.Funcs, mainFn(hs.LetT("x", T.t, v0), hs.LetT("y", T.t, hs.V("x")), use("y")))
	case 2: // top-level alias
		p.Types = append(p.Types, &hs.TypeDef{Name: "A", T: T.t})
		p.Funcs = append(p.Funcs, mainFn(hs.LetT("x", hs.TNamed("A"), v0), hs.LetT("y", T.t, hs.V("x")), use("y")))
	case 3: // local alias
		p.Funcs = append(p.Funcs, mainFn(&hs.TypeDef{Name: "A", T: T.t}, hs.LetT("x", hs.TNamed("A"), v0), use("x")))
	case 4: // alias of alias
		p.Types = append(p.Types, &hs.TypeDef{Name: "A", T: T.t}, &hs.TypeDef{Name: "B", T: hs.TNamed("A")})
		p.Funcs = append(p.Funcs, mainFn(hs.LetT("x", hs.TNamed("B"), v0), hs.LetT("y", hs.TNamed("A"), hs.V("x")), use("y")))
	case 5: // assignment
		p.Funcs = append(p.Funcs, mainFn(hs.LetS("x", v0), hs.ES(hs.Asg("=", hs.V("x"), v1)), use("x")))
	case 6: // assignment to an annotated variable
		p.Funcs = append(p.Funcs, mainFn(hs.LetT("x", T.t, v0), hs.ES(hs.Asg("=", hs.V("x"), v1)), use("x")))
	case 7: // parameter
		p.Funcs = append(p.Funcs, mainFn(hs.ES(hs.CallN("f", v0))), hs.Fn("f", nil, hs.Blk(nil, hs.LetS("q", hs.V("p")), use("q")), hs.P("p", T.t)))
	case 8: // result through the tail expression
		p.Funcs = append(p.Funcs, mainFn(hs.LetS("r", hs.CallN("f")), use("r")), hs.Fn("f", T.t, hs.Blk(v0)))
	case 9: // result through return
		p.Funcs = append(p.Funcs, mainFn(hs.LetT("r", T.t, hs.CallN("f")), use("r")), hs.Fn("f", T.t, hs.Blk(nil, &hs.Return{X: v0})))
	case 10: // annotated global
		if !T.konst() {
			return nil
		}
		p.Globals = append(p.Globals, &hs.Let{Name: "g", T: T.t, X: v0})
		p.Funcs = append(p.Funcs, mainFn(hs.LetS("y", hs.V("g")), use("y")))
	case 11: // inferred global, assigned in main
		if !T.konst() {
			return nil
		}
		p.Globals = append(p.Globals, &hs.Let{Name: "g", X: v0})
		p.Funcs = append(p.Funcs, mainFn(hs.LetT("y", T.t, hs.V("g")), hs.ES(hs.Asg("=", hs.V("g"), v1)), use("y")))
	case 12: // imported type
		lib := libProg()
		lib.Types = append(lib.Types, &hs.TypeDef{Name: "A", T: T.t, Pub: true})
		p.Imports = append(p.Imports, hs.Import{Names: []string{"type A"}, From: "lib"})
		p.Funcs = append(p.Funcs, mainFn(hs.LetT("x", hs.TNamed("A"), v0), hs.LetT("y", T.t, hs.V("x")), use("y")))
		return withLib(p, lib, tags...)
	case 13: // imported function
		lib := libProg()
		lib.Funcs = append(lib.Funcs, &hs.Func{Name: "mk", Pub: true, Params: []hs.Param{hs.P("p", T.t)}, Ret: T.t, Body: hs.Blk(hs.V("p"))})
		p.Imports = append(p.Imports, hs.Import{Names: []string{"mk"}, From: "lib"})
		p.Funcs = append(p.Funcs, mainFn(hs.LetT("x", T.t, hs.CallN("mk", v0)), use("x")))
		return withLib(p, lib, tags...)
	case 14: // imported global
		if !T.konst() {
			return nil
		}
		lib := libProg()
		lib.Globals = append(lib.Globals, &hs.Let{Name: "g", T: T.t, X: v0, Pub: true})
		p.Imports = append(p.Imports, hs.Import{Names: []string{"g"}, From: "lib"})
		p.Funcs = append(p.Funcs, mainFn(hs.LetT("y", T.t, hs.V("g")), use("y")))
		return withLib(p, lib, tags...)
	case 15: // element of a list, loop variable
		p.Funcs = append(p.Funcs, mainFn(hs.LetS("l", hs.List(v0, v1)),
			&hs.For{Var: "e", Iter: hs.V("l"), Body: hs.Blk(nil, hs.LetT("y", T.t, hs.V("e")), use("y"))},
			hs.LetT("z", T.t, hs.Idx(hs.V("l"), hs.I(0))), use("z")))
	case 16: // wrapped in an option
		p.Funcs = append(p.Funcs, mainFn(hs.LetS("o", hs.Un("?", v0)), hs.LetT("u", T.t, hs.MCall(hs.V("o"), "unwrap")),
			hs.LetT("o2", hs.TOpt(T.t), &hs.NoneLit{}), use("u"), use("o2")))
	case 17: // object field
		st := []hs.Stmt{hs.LetS("o", &hs.ObjLit{Fields: []hs.ObjField{{Name: "f", X: v0}}}), hs.LetT("y", T.t, hs.Mem(hs.V("o"), "f")), use("y")}
		st = append(st, hs.ES(hs.Asg("=", hs.Mem(hs.V("o"), "f"), v1)))
		p.Funcs = append(p.Funcs, mainFn(st...))
	case 18: // value of if/else
		p.Funcs = append(p.Funcs, mainFn(hs.LetS("c", hs.B(true)), hs.LetS("x", &hs.If{Cond: hs.V("c"), Then: hs.Blk(v0), Else: hs.Blk(v1)}), hs.LetT("y", T.t, hs.V("x")), use("y")))
	case 19: // value of match
		p.Funcs = append(p.Funcs, mainFn(hs.LetS("k", hs.I(1)), hs.LetS("x", &hs.Match{X: hs.V("k"), Arms: []hs.MatchArm{{Lits: []hs.Expr{hs.I(1)}, Body: v0}, {Body: v1}}}), hs.LetT("y", T.t, hs.V("x")), use("y")))
	case 20: // value of try/catch
		p.Funcs = append(p.Funcs, mainFn(hs.LetS("x", &hs.Try{Body: hs.Blk(v0), Var: "e", Catch: hs.Blk(v1)}), hs.LetT("y", T.t, hs.V("x")), use("y")))
	case 21: // value of a block
		p.Funcs = append(p.Funcs, mainFn(hs.LetS("x", &hs.BlockExpr{B: hs.Blk(hs.V("t"), hs.LetS("t", v0))}), hs.LetT("y", T.t, hs.V("x")), use("y")))
	case 22: // through a closure
		p.Funcs = append(p.Funcs, mainFn(hs.LetS("k", fnLit(T.t, hs.Blk(hs.V("p")), hs.Field{Name: "p", T: T.t})), hs.LetT("r", T.t, hs.CallE(hs.V("k"), v0)), use("r")))
	case 23: // identity cast
		if T.hasFn {
			return nil
		}
		p.Funcs = append(p.Funcs, mainFn(hs.LetS("x", &hs.Cast{X: v0, T: T.t}), hs.LetT("y", T.t, hs.V("x")), use("y")))
	case 24: // equality
		if T.hasFn {
			return nil
		}
		p.Funcs = append(p.Funcs, mainFn(hs.LetT("b", hs.TBool, hs.Bin("==", v0, v1)), hs.LetS("n", hs.Bin("!=", v1, v0)), use("b"), use("n")))
	case 25: // constant that needs its annotation (none, [])
		if T.anyLit == nil {
			return nil
		}
		p.Funcs = append(p.Funcs, mainFn(hs.LetT("x", T.t, T.anyLit()), hs.LetT("y", T.t, hs.V("x")), use("y")))
	case 26: // the same as a global and as an argument
		if T.anyLit == nil || !T.konst() {
			return nil
		}
		p.Globals = append(p.Globals, &hs.Let{Name: "g", T: T.t, X: T.anyLit()})
		st := []hs.Stmt{use("g")}
		if T.t.K == hs.KOpt { // `none` may be passed directly, `[]` may not
			st = append(st, hs.ES(hs.CallN("f", T.anyLit())))
		}
		p.Funcs = append(p.Funcs, mainFn(st...), hs.Fn("f", nil, hs.Blk(nil, use("p")), hs.P("p", T.t)))
	}
	return single(p, tags...)
}

func init() {
	c03Families = append(c03Families, c03Family{
		Name:  "types",
		Count: func(tier string) int { return nTypeForms * len(c03Universe(tier)) },
		Gen:   c03TypesCase,
	})
}
