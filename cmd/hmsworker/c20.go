package main

import (
	"fmt"
	"hash/fnv"
	"os"
	"runtime/debug"
	"sort"
	"strings"

	"github.com/smarthome-go/homescript/v3/homescript/analyzer/ast"
	"github.com/smarthome-go/homescript/v3/homescript/fuzzer"
	"github.com/smarthome-go/homescript/v3/homescript/vsched"
)

// C20: the semantic fuzzer's rewrites preserve behaviour.
//
// The transformer's random source is replaced by a scripted one: every draw is a choice
// point over a finite alphabet of raw 63-bit values constructed so that Intn(n) reaches every
// index for n <= 8 and Shuffle reaches every transposition of short slices. All draw
// sequences that differ from the all-zero sequence in <= 1 (quick) / <= 2 (thorough) draws
// are explored, for 1-3 passes.

var drawAlphabet = func() []int64 {
	var a []int64
	// 840 = lcm(1..8): Int31() == 840+c gives Intn(n) == c % n for every n <= 8, and the default
	// value (c == 0) maps to index 0 everywhere. Uint32() == 2*(840+c) is non-zero, so the
	// rejection loop of math/rand's int31n (used by Shuffle) terminates on a constant source;
	// a raw value of 0 would spin there forever for n == 3.
	for c := int64(0); c < 8; c++ {
		a = append(a, (840+c)<<32)
	}
	for k := int64(1); k < 12; k++ {
		v := k * (1 << 32) / 12 // Uint32() == v: int31n(n) == floor(v*n / 2^32) reaches every j < n for n <= 6
		a = append(a, v<<31)
	}
	return a
}()

type scriptedSource struct{ draws *int }

func (s scriptedSource) Int63() int64 {
	*s.draws++
	if *s.draws > 200000 {
		panic("HARNESS: more than 200000 draws in one transformation (rejection loop on the scripted source?)")
	}
	return drawAlphabet[vsched.Choose(len(drawAlphabet), 'r', "draw")]
}
func (scriptedSource) Seed(int64) {}

// Input programs in the class the property names: side-effect free sub-expressions, small
// non-negative multiplication operands, literals far from overflow/rounding boundaries.
var c20Inputs = []struct{ name, text string }{
	{"arithmetic-and-lets", `fn main() {
    let a = 3;
    let b = a * 4 + 2;
    let c = (b - a) / 2;
    println(a, b, c, a < b, b == 14, c != 5);
    let f = 2.0;
    println(f * 3.0 + 1.0);
}
`},
	{"if-else-chains", `fn sign(n: int) -> str {
    if n < 0 { "neg" } else if n == 0 { "zero" } else { "pos" }
}
fn main() {
    println(sign(-3), sign(0), sign(8));
    let x = 5;
    if x > 3 { println("big"); } else { println("small"); }
    if x == 5 { println("five"); }
}
`},
	{"loops-break-continue", `fn main() {
    let total = 0;
    for i in 0..10 {
        if i % 2 == 0 { continue; }
        if i > 7 { break; }
        total += i;
    }
    println(total);
    let n = 0;
    while n < 5 { n += 1; }
    println(n);
    let k = 0;
    loop { k += 2; if k >= 6 { break; } }
    println(k);
}
`},
	{"functions-and-recursion", `fn fib(n: int) -> int { if n < 2 { n } else { fib(n - 1) + fib(n - 2) } }
fn add(a: int, b: int) -> int { a + b }
fn main() {
    println(fib(10), add(2, 3), add(fib(5), 1));
}
`},
	{"match-and-strings", `fn name(n: int) -> str {
    match n { 1 => "one", 2 => "two", _ => "many" }
}
fn main() {
    println(name(1), name(2), name(9));
    let s = "ab" + "cd";
    println(s, s.len(), s == "abcd");
}
`},
	{"lists-and-objects", `fn main() {
    let l = [1, 2, 3];
    l.push(4);
    println(l, l.len(), l[0], l[-1]);
    let o = new { a: 1, b: "x" };
    o.a = 5;
    println(o.a, o.b);
    let total = 0;
    for x in l { total += x; }
    println(total);
}
`},
	{"try-catch", `fn risky(n: int) -> int {
    if n > 2 { throw("too big"); }
    n * 2
}
fn main() {
    let r = try { risky(1) } catch e { 0 };
    println(r);
    try { risky(5); println("not here"); } catch e { println("caught", e.message); }
    println("end");
}
`},
	{"loop-control-inside-try-catch", `fn main() {
    let i = 0;
    loop {
        try {
            if i >= 3 { throw("limit reached"); }
            println(i);
        } catch e {
            println(e.message);
            break;
        }
        i += 1;
        println("next");
    }
    for k in 0..4 {
        try {
            if k == 1 { continue; }
            println("k", k);
        } catch e {
            println("never");
        }
        println("after", k);
    }
    let n = 0;
    while n < 3 {
        n += 1;
        try { if n == 2 { break; } } catch e { println("never"); }
        println("n", n);
    }
    println("end");
}
`},
	{"nested-loops-and-blocks", `fn main() {
    let total = 0;
    for a in 0..3 {
        for b in 0..3 {
            if b == 2 { break; }
            if a == 1 { continue; }
            { total += a * 3 + b; }
        }
        total += 100;
    }
    println(total);
    let v = { let t = 2; t * 4 };
    println(v, if v > 5 { "big" } else { "small" });
}
`},
	{"globals-and-bools", `let limit = 10;
let label = "v";
fn over(n: int) -> bool { n > limit }
fn main() {
    println(over(3), over(30), !over(3), over(3) || over(30), over(3) && over(30));
    println(label, limit);
}
`},
}

// small inputs (name prefix "small:") are explored one deviation deeper than the others when
// a single pass is applied
func init() {
	c20Inputs = append(c20Inputs, []struct{ name, text string }{
		{"small:constant-global-initialisers", `let PROD = 3 * 4;
let FITS = 3 * 4 <= 12;
let MORE = 2 + 3 * 4 > 5 * 2;
let SAME = 6 * 2 == 3 * 4;
let BOTH = true && 2 * 2 < 5;
let NEG = -(2 * 3);
fn main() {
    println(PROD, FITS, MORE, SAME, BOTH, NEG);
}
`},
		{"small:constant-globals-of-other-types", `let WORD = "a" + "b";
let LIST = [1 * 2, 3];
let OBJ = new { x: 2 * 3, y: 1 < 2 };
let HALF = 3.0 / 2.0;
let REM = 13 % 4 - 12 / 4;
fn main() {
    println(WORD, LIST, OBJ.x, OBJ.y, HALF, REM);
}
`},
		{"small:returns-before-the-end", `fn early(n: int) -> int {
    if n > 2 { return n * 2; }
    for i in 0..5 { if i == n { return i + 10; } }
    0 - 1
}
fn done(n: int) {
    if n > 1 { println("big"); return; }
    println("small");
}
fn main() {
    println(early(5), early(1), early(0 - 3));
    done(1);
    done(2);
}
`},
		{"small:return-as-last-statement", `fn last(n: int) -> int {
    if n > 2 { return n * 2; }
    return 0 - 1;
}
fn main() {
    println(last(5), last(1));
}
`},
		{"small:fractional-float-literals", `let RATE = 0.007;
fn tax(x: float) -> float { x * 0.029 }
fn main() {
    let a = 0.057;
    let b = 0.122;
    println(RATE, a, b, 0.014, a + b, tax(100.0), a < b, 0.1 + 0.2);
}
`},
		{"small:sums-and-differences-bound-by-lets", `let SHIFT = 0.5 + 0.25;
let COUNT = 3 + 4;
let LABEL = "a" + "b";
fn main() {
    let a = 1.5;
    let b = 2.25;
    let sum = a + b;
    let diff = a - b;
    let isum = 3 + 4;
    let idiff = 3 - 4;
    let text = "x" + "y";
    let mixed = (a + b) - (b - a);
    println(sum, diff, isum, idiff, text, mixed, SHIFT, COUNT, LABEL);
    let acc = 0.0;
    for i in 0..3 {
        let step = acc + 0.5;
        acc = step - 0.25;
    }
    println(acc);
}
`},
		{"small:impl-block-methods", `import templ FooFeature from templates;
$Lamp = {
    level: int,
    name: str,
};
impl FooFeature with { light } for $Lamp {
    fn dim(self: $Lamp, percent: int) -> bool {
        if self.level == percent {
            return false;
        }
        self.level = percent + 0;
        true
    }
}
fn level(l: $Lamp) -> int { l.level * 1 }
fn main() {
    println(dim(40), dim(40), level());
    for i in 0..3 {
        dim(i + 1);
    }
    println(level(), $Lamp.level);
}
`},
		{"small:annotated-callbacks", `import trigger minute from triggers;
let base = 2;
fn twice(n: int) -> int { n * 2 }
#[trigger in minute(base * 20 + twice(5))]
event fn every(_elapsed: int) {
    println("every() was called");
}
#[allow_unused]
fn spare(n: int) -> int { n + 0 }
fn main() {
    println("registered", base + 1);
}
`},
		{"small:loop-body-with-literals-of-every-kind", `fn main() {
    let total = 0;
    for i in 0..3 {
        let m: ?int = none;
        let e = new { ? };
        let q = new { k: i };
        if q.k > 1 { break; }
        total += m.unwrap_or(1) + e.keys().len();
        null;
    }
    println(total);
}
`},
		{"small:loop-body-with-closure-cast-and-match", `fn pick(n: int) -> int { match n { 1 => 20, _ => 30 } }
fn main() {
    let total = 0;
    for i in 0..3 {
        let g = fn(y: int) -> int { y };
        let c = (i as float) as int;
        if pick(i) == 20 { continue; }
        total += g(c) + (0..i).end;
    }
    println(total);
}
`},
		{"small:multiplication-by-zero-and-one", `fn scale(a: int, b: int) -> int { a * b }
fn main() {
    for i in 0..3 { println(scale(3, i), scale(i, 3), i * 0, 5 * i); }
    println(7 * 0, 0 * 7, 7 * 1, 0 * 0);
}
`},
		{"small:conditions-that-are-casts", `fn busy(n: int) -> str { if n as bool { "busy" } else { "idle" } }
fn main() {
    for n in 0..3 {
        if (n as float / 2.0) as int as bool { println("f", n); } else { println("not f", n); }
    }
    println(busy(5), busy(-1), busy(0));
}
`},
		{"small:conditions-that-are-calls-members-and-indices", `fn odd(n: int) -> bool { n % 2 == 1 }
fn main() {
    let flags = [true, false];
    let o = new { up: true };
    for n in 0..2 {
        if flags[n] { println("flag", n); } else { println("no flag", n); }
        if !odd(n) { println("!odd", n); } else { println("!!odd", n); }
        if o.up { println("up", n); } else { println("down", n); }
    }
}
`},
		{"small:parenthesised-operands-that-bind-weaker-than-the-comparison", `fn same(a: bool, b: bool, c: bool) -> bool { (a && b) == c }
fn bit(flags: int, mask: int) -> bool { (flags & mask) != 0 }
fn main() {
    println(same(false, true, true), same(true, true, true), same(false, false, false));
    println(bit(6, 2), bit(4, 2), (1 | 2) < 4, (true || false) != (false && true));
}
`},
		{"small:comparisons-in-every-position", `fn le(a: int, b: int) -> bool { a * 2 <= b * 3 }
fn main() {
    let a = 2;
    if a * 3 >= 6 { println("ge"); }
    while a * 2 < 8 { a += 1; }
    println(a, le(a, 1), le(1, a), [a * 2 > 3][0], if a * 2 > 3 { "t" } else { "f" });
}
`},
	}...)
}

// Shipped examples in the property's class (they terminate quickly and print a fixed text);
// read from the repository at run time, skipped (with a note) if absent or not accepted.
var c20Examples = []string{"fizzbuzz", "primes", "box", "iterators", "lists", "pow", "matrix", "e"}

func c20Input(i int) (name, text string, ok bool) {
	if i < len(c20Inputs) {
		return c20Inputs[i].name, c20Inputs[i].text, true
	}
	n := c20Examples[i-len(c20Inputs)]
	b, err := os.ReadFile("/repo/examples/" + n + ".hms")
	if err != nil {
		return "example:" + n, "", false
	}
	return "example:" + n, string(b), true
}

type c20Base struct {
	tree  ast.AnalyzedProgram
	obs   Obs
	ok    bool
	decls string
}

// c20Decls renders what a program declares to the host besides its behaviour when run: the
// annotations of its functions (kind and trigger of each item, per function, sorted).
func c20Decls(p ast.AnalyzedProgram) string {
	var out []string
	for _, f := range p.Functions {
		if f.Annotation == nil {
			continue
		}
		var items []string
		for _, it := range f.Annotation.Items {
			switch a := it.(type) {
			case ast.AnalyzedAnnotationItemTrigger:
				items = append(items, fmt.Sprintf("trigger %v %s/%d", a.TriggerConnective, a.TriggerSource.Ident(), len(a.TriggerArgs.List)))
			default:
				items = append(items, fmt.Sprintf("%T %s", it, it.String()))
			}
		}
		out = append(out, f.Ident.Ident()+": "+strings.Join(items, ", "))
	}
	sort.Strings(out)
	return strings.Join(out, "; ")
}

func c20Prepare(text string) c20Base {
	a := Analyze(map[string]string{"main": text}, true)
	if !a.Obs.Accepted() || a.Obs.Class == "HOST-PANIC" {
		return c20Base{}
	}
	o := RunVM(a, defaultOpts())
	return c20Base{tree: a.Mods["main"], obs: o, ok: crashClass(o) == "", decls: c20Decls(a.Mods["main"])}
}

func c20Run(tier string, idx int, r *Result) {
	var in struct{ name, text string }
	var found bool
	in.name, in.text, found = c20Input(idx / 3)
	passes := idx%3 + 1
	if !found {
		r.Note("example-missing:"+in.name, 1)
		return
	}
	base := c20Prepare(in.text)
	tags := []string{"input:" + in.name, fmt.Sprintf("passes:%d", passes)}
	if !base.ok {
		if strings.HasPrefix(in.name, "example:") {
			r.Note("example-not-usable-with-the-harness-hosts:"+in.name+":"+base.obs.Class, 1)
			return
		}
		r.Fail("HARNESS:input program not accepted or crashes", tags, in.text, base.obs.String())
		return
	}
	if strings.HasPrefix(in.name, "example:") && (base.obs.Class != "ok" || len(in.text) > 2500 || strings.Contains(in.text, "time.")) {
		r.Note("example-skipped(outcome "+base.obs.Class+" or too large):"+in.name, 1)
		return
	}
	bound := 1
	if tier == "thorough" && passes == 1 && !strings.HasPrefix(in.name, "example:") {
		bound = 2 // (two deviations over two or three passes do not fit the tier's budget)
	}
	if strings.HasPrefix(in.name, "small:") && passes == 1 && (tier == "quick" || strings.HasPrefix(in.name, "small:constant")) {
		bound++ // one pass over a small input: one deviation deeper
	}
	seenText := map[uint64]bool{}
	reported := map[string]bool{}
	var variant string
	var panicMsg string
	run := func() {
		variant, panicMsg = "", ""
		defer func() {
			if rv := recover(); rv != nil {
				panicMsg = fmt.Sprintf("%v @ %s", rv, panicFunc(vsched.RepoFrames(string(debug.Stack()))))
			}
		}()
		draws := 0
		t := fuzzer.NewTransformerWithSource(scriptedSource{&draws})
		outs := t.TransformPasses(base.tree, passes)
		variant = outs[len(outs)-1].String()
	}
	cfg := vsched.ExploreCfg{Bound: bound, Kinds: "r"}
	if !r.deadline.IsZero() {
		cfg.Deadline = r.deadline
	}
	variants := 0
	res := vsched.Explore(cfg, run, func(choices []int, c *vsched.Chooser) bool {
		r.Beat()
		cas := fmt.Sprintf("%s// fuzzer input %s, %d pass(es), non-default draws (point:alphabet index): %s", in.text, in.name, passes, fmtChoices(choices))
		if panicMsg != "" {
			key := "panic:" + normMsg(panicMsg)
			if !reported[key] {
				reported[key] = true
				r.Fail("HOST-PANIC:transformer:"+normMsg(panicMsg), tags, cas, panicMsg)
			}
			return true
		}
		h := fnv.New64a()
		h.Write([]byte(variant))
		if seenText[h.Sum64()] {
			return true
		}
		seenText[h.Sum64()] = true
		variants++
		r.Distinct(in.name + "|" + variant)
		a := Analyze(map[string]string{"main": variant}, true)
		r.Trans(1)
		if a.Obs.Class == "HOST-PANIC" {
			if !reported["ana-panic"] {
				reported["ana-panic"] = true
				r.Fail("VARIANT:analyzer panics on the variant", tags, cas, "variant:\n"+variant+"\n"+a.Obs.String())
			}
			return true
		}
		if !a.Obs.Accepted() {
			msgs := append(append([]string{}, a.Obs.Syntax...), a.Obs.Errors...)
			key := "rej:" + normMsg(msgs[0])
			if !reported[key] {
				reported[key] = true
				r.Fail("VARIANT:rejected by the analyzer:"+normMsg(msgs[0]), tags, cas, "variant:\n"+variant+"\n"+a.Obs.String())
			}
			return true
		}
		if d := c20Decls(a.Mods["main"]); d != base.decls && !reported["decls"] {
			reported["decls"] = true
			r.Fail("VARIANT:declares other annotations", tags, cas, fmt.Sprintf("variant:\n%s\noriginal declares: %s\nvariant declares:  %s", variant, base.decls, d))
		}
		o := RunVM(a, defaultOpts())
		r.Trans(2)
		if o.Key() != base.obs.Key() {
			key := "beh:" + o.Class + o.Kind
			if !reported[key] {
				reported[key] = true
				cls := "VARIANT:behaves differently"
				if cc := crashClass(o); cc != "" {
					cls = "VARIANT:crashes:" + cc
				}
				r.Fail(cls, tags, cas, fmt.Sprintf("variant:\n%s\noriginal: %s\nvariant:  %s", variant, base.obs.String(), o.String()))
			}
		}
		return true
	})
	r.Note("draw-sequences", res.Execs)
	r.Note("distinct-variants", variants)
	r.Note(fmt.Sprintf("max-draws:%s:%d", in.name, passes), res.MaxPoints)
	r.Sample(fmt.Sprintf("%s// %d pass(es): %d draw sequences with <= %d non-default draws (up to %d draws each), %d distinct variant texts", in.text, passes, res.Execs, bound, res.MaxPoints, variants))
	if variant != "" {
		r.Sample("// one variant of " + in.name + ":\n" + variant)
	}
	if res.Diverged != "" {
		r.Fail("HARNESS:replay divergence", tags, in.text, res.Diverged)
	}
	if !res.Complete {
		r.MarkIncomplete(fmt.Sprintf("%s passes=%d: time cap hit after %d draw sequences", in.name, passes, res.Execs))
	}
}

func init() {
	register("C20", func() *Check {
		return &Check{ID: "C20", Scenarios: []Scenario{
			{Name: "pass-by-pass-closure", Count: func(string) int { return len(c20Tiny) }, Run: c20Closure},
			{Name: "transformer-draw-sequences", Count: func(string) int { return (len(c20Inputs) + len(c20Examples)) * 3 }, Run: c20Run},
		}}
	})
}
