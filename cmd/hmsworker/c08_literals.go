package main

import (
	"fmt"
	"strings"

	"hmsverif/internal/hs"
)

// C08, number literals that lex but do not fit their type (an integer beyond 64 bits, a float
// beyond the range of float64): the syntax error names the literal, wherever it stands - behind
// `=`, `,`, `(`, an operator, first on a line of its own.

var c08LitLiterals = []struct{ name, text string }{
	{"int-beyond-64-bits", "99999999999999999999"},
	{"int-beyond-64-bits-with-separators", "9_999_999_999_999_999_999"},
	{"float-beyond-float64", "1" + strings.Repeat("0", 400) + ".0"},
}
var c08LitContexts = []struct{ name, before, after string }{
	{"let-initialiser", "fn main() {\n    let x = ", ";\n}\n"},
	{"on-a-line-of-its-own", "fn main() {\n    let x =\n        ", ";\n}\n"},
	{"second-list-element", "fn main() {\n    let l = [1, ", ", 3];\n}\n"},
	{"call-argument", "fn main() {\n    println(", ");\n}\n"},
	{"right-operand", "fn main() {\n    let y = 1 + ", " * 2;\n}\n"},
	{"after-a-comment-with-non-ascii", "fn main() {\n    let x = /* é */ ", ";\n}\n"},
	{"global-initialiser", "let G = ", ";\nfn main() {}\n"},
}

func c08LitCount() int { return len(c08LitLiterals) * len(c08LitContexts) }

func c08LitRun(idx int, r *Result) {
	d := radix(idx, len(c08LitContexts), len(c08LitLiterals))
	cx, lit := c08LitContexts[d[0]], c08LitLiterals[d[1]]
	text := cx.before + lit.text + cx.after
	mods := map[string]string{"main": text}
	tags := []string{"literal:" + lit.name, "context:" + cx.name}
	r.Sample(text)
	a := Analyze(mods, true)
	r.Trans(1)
	if a.Obs.Class == "HOST-PANIC" {
		r.Note("analyzer-panic(C05)", 1)
		return
	}
	line, col := 1, 1
	adv := func(s string) {
		for _, ru := range s {
			if ru == '\n' {
				line++
				col = 1
			} else {
				col++
			}
		}
	}
	adv(cx.before)
	cs := hs.Pos{Line: line, Col: col}
	adv(lit.text[:len(lit.text)-1])
	rng := hs.Rng{Start: cs, End: hs.Pos{Line: line, Col: col}}
	found := 0
	for _, e := range a.Syn {
		if !strings.Contains(e.Message, "Cannot use") {
			continue
		}
		found++
		r.Distinct(strings.Join(tags, ",") + "|" + showSpan(e.Span))
		if p := spanProblem(e.Span, mods); p != "" {
			r.Fail("SPAN:syntax-error:"+p, tags, text, fmt.Sprintf("%q span %s", e.Message, showSpan(e.Span)))
			return
		}
		if !within(e.Span, rng) {
			r.Fail("SPAN:syntax-error:outside the literal it is about", tags, text, fmt.Sprintf("%q span %s, the literal is at %d:%d-%d:%d", e.Message[:40], showSpan(e.Span), rng.Start.Line, rng.Start.Col, rng.End.Line, rng.End.Col))
			return
		}
	}
	if found == 0 {
		r.Note("no-syntax-error-about-the-literal("+lit.name+")", 1)
		return
	}
	r.Outcome("reported-at-the-literal")
}
