package main

import (
	"fmt"

	ivalue "github.com/smarthome-go/homescript/v3/homescript/interpreter/value"
	"github.com/smarthome-go/homescript/v3/homescript/runtime/value"
)

// C13, strings produced by members: the value libraries keep strings in one canonical form
// (literals are normalised when they are created). A string that a member builds from pieces
// - replace, repeat, upper/lower-casing, substring, split and join, concatenation by `+` in a
// program - must obey the same laws as a string literal with the same text: equal to its
// clone, equal to a fresh string of the same text, unchanged by a JSON round trip. Receivers
// contain combining marks that become adjacent to their base character only through the
// operation.

type c13StrOp struct {
	name string
	recv string
	args []any // string | int
}

var c13StrOps = []c13StrOp{
	{"replace", "e_́", []any{"_", ""}},
	{"replace", "a_̈b", []any{"_", ""}},
	{"replace", "xe", []any{"x", "́"}},
	{"replace", "plain_text", []any{"_", " "}},
	{"repeat", "́e", []any{2}},
	{"repeat", "ô", []any{3}},
	{"repeat", "ab", []any{2}},
	{"to_upper", "é", nil},
	{"to_lower", "É", nil},
	{"substring", "éx", []any{1}},
	{"concat", "e", []any{"́"}},
}

func c13StringsCount() int { return len(c13StrOps) * 2 }

func c13StringsRun(idx int, r *Result) {
	op := c13StrOps[idx/2]
	lib := []string{"vm", "tree"}[idx%2]
	tags := []string{"lib:" + lib, "member:" + op.name}
	cas := fmt.Sprintf("%q.%s(%v) in the %s value library", op.recv, op.name, op.args, lib)
	r.Sample(cas)
	fail := func(class, detail string) { r.Fail(class, tags, cas, detail) }
	if lib == "vm" {
		var res *value.Value
		pc, _ := guard("runtime/value.str."+op.name, func() {
			recv := value.NewValueString(op.recv)
			if op.name == "concat" {
				res = value.NewValueString((*recv).(value.ValueString).Inner + op.args[0].(string))
				return
			}
			fs, fi := (*recv).Fields()
			if fi != nil {
				panic((*fi).Message())
			}
			f, found := fs[op.name]
			if !found {
				return
			}
			var args []value.Value
			for _, a := range op.args {
				switch x := a.(type) {
				case string:
					args = append(args, *value.NewValueString(x))
				case int:
					args = append(args, *value.NewValueInt(int64(x)))
				}
			}
			var i *value.VmInterrupt
			res, i = (*f).(value.ValueBuiltinFunction).Callback(nil, nil, noSpan, args...)
			if i != nil {
				res = nil
			}
		})
		if pc != "" {
			fail(pc, "member panicked")
			return
		}
		if res == nil {
			r.Note("strings:member-missing-or-interrupt:"+op.name, 1)
			return
		}
		s, isStr := (*res).(value.ValueString)
		if !isStr {
			r.Note("strings:result-not-a-string:"+op.name, 1)
			return
		}
		r.Trans(3)
		r.Distinct(fmt.Sprintf("%s|%s|%q", lib, op.name, s.Inner))
		clone := (*res).Clone()
		if eq, _ := (*res).IsEqual(*clone); !eq {
			fail("CLONE:not-equal", fmt.Sprintf("result %q, its clone %q", s.Inner, (*clone).(value.ValueString).Inner))
		}
		if eq, _ := (*clone).IsEqual(*res); !eq {
			fail("EQ:not-symmetric", fmt.Sprintf("clone == result is false for %q", s.Inner))
		}
		fresh := value.NewValueString(s.Inner)
		if eq, _ := (*res).IsEqual(*fresh); !eq {
			fail("EQ:member-result-differs-from-a-fresh-string-of-the-same-text", fmt.Sprintf("result %q (%d bytes), fresh string %q (%d bytes)", s.Inner, len(s.Inner), (*fresh).(value.ValueString).Inner, len((*fresh).(value.ValueString).Inner)))
		}
		return
	}
	var res *ivalue.Value
	pc, _ := guard("interpreter/value.str."+op.name, func() {
		recv := ivalue.NewValueString(op.recv)
		if op.name == "concat" {
			res = ivalue.NewValueString((*recv).(ivalue.ValueString).Inner + op.args[0].(string))
			return
		}
		fs, fi := (*recv).Fields()
		if fi != nil {
			panic((*fi).Message())
		}
		f, found := fs[op.name]
		if !found {
			return
		}
		var args []ivalue.Value
		for _, a := range op.args {
			switch x := a.(type) {
			case string:
				args = append(args, *ivalue.NewValueString(x))
			case int:
				args = append(args, *ivalue.NewValueInt(int64(x)))
			}
		}
		var i *ivalue.Interrupt
		res, i = (*f).(ivalue.ValueBuiltinFunction).Callback(nil, nil, noSpan, args...)
		if i != nil {
			res = nil
		}
	})
	if pc != "" {
		fail(pc, "member panicked")
		return
	}
	if res == nil {
		r.Note("strings:member-missing-or-interrupt:"+op.name, 1)
		return
	}
	s, isStr := (*res).(ivalue.ValueString)
	if !isStr {
		r.Note("strings:result-not-a-string:"+op.name, 1)
		return
	}
	r.Trans(3)
	r.Distinct(fmt.Sprintf("%s|%s|%q", lib, op.name, s.Inner))
	fresh := ivalue.NewValueString(s.Inner)
	if eq, _ := (*res).IsEqual(*fresh); !eq {
		fail("EQ:member-result-differs-from-a-fresh-string-of-the-same-text", fmt.Sprintf("result %q (%d bytes), fresh string %q (%d bytes)", s.Inner, len(s.Inner), (*fresh).(ivalue.ValueString).Inner, len((*fresh).(ivalue.ValueString).Inner)))
	}
}
