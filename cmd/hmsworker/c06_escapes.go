package main

import "fmt"

// C06, every escape sequence of string literals: each character after a backslash, every
// three-digit octal escape, shorter and non-octal digit runs, every `\xHH`, and `\u` / `\U`
// escapes at the boundaries of the code space - each decoded to the value written, between two
// ordinary characters and in both quote styles.

var c06EscapeTexts = func() []string {
	var es []string
	for c := 0; c < 128; c++ { // single characters (most are not escapes: an error is what the grammar says)
		es = append(es, "\\"+string(rune(c)))
	}
	for n := 0; n < 512; n++ { // \000 .. \777
		es = append(es, fmt.Sprintf("\\%03o", n))
	}
	es = append(es, `\0`, `\1`, `\7`, `\01`, `\12`, `\08`, `\019`, `\0123`, `\00`, `\400`, `\0a`, `\18`)
	for n := 0; n < 256; n++ {
		es = append(es, fmt.Sprintf("\\x%02x", n))
	}
	es = append(es, `\xAF`, `\xaF`, `\x4`, `\xg0`, `\x`, `\x412`)
	for _, u := range []string{"0000", "0041", "00e9", "07ff", "0800", "d7ff", "d800", "dbff", "dc00", "dfff", "e000", "fffd", "ffff", "FFFF", "20AC", "004", "00g1", ""} {
		es = append(es, `\u`+u)
	}
	for _, u := range []string{"00000000", "00000041", "0001F600", "0010FFFF", "00110000", "0000D800", "FFFFFFFF", "0001f60", "0001F60g", ""} {
		es = append(es, `\U`+u)
	}
	return es
}()

func c06EscapeCount() int { return len(c06EscapeTexts) * 4 }

func c06EscapeRun(idx int, r *Result) {
	d := radix(idx, 4, len(c06EscapeTexts))
	e := c06EscapeTexts[d[1]]
	var text string
	switch d[0] {
	case 0:
		text = `"a` + e + `b"`
	case 1:
		text = `'a` + e + `b'`
	case 2:
		text = `"` + e + `"`
	case 3:
		text = `"` + e + e + `";` // two in a row, followed by another token
	}
	c06Oracle(text, []string{"escape:" + fmt.Sprintf("%q", e)}, r)
}
