package main

import (
	"math"

	"hmsverif/internal/hs"
)

// S1: every binary operator x admitted operand type x ordered pair of boundary values, in
// several syntactic forms (literal operands, locals, globals, compound assignment on a
// local / global / list element / object field).

var (
	intVals   = []int64{0, 1, -1, 2, 3, 7, 62, 63, 64, 256, 257, 4294967297, math.MaxInt64, math.MinInt64} // (256, 257, 2^32+1: shift counts that look small once narrowed to 8 or 32 bits)
	floatVals = []float64{0, 1.5, -2, 3, 1e308, 0.1, math.Inf(1), math.Inf(-1), math.NaN()}
	boolVals  = []bool{false, true}
	strVals   = []string{"", "a", "ab", "é"}

	intOps   = []string{"+", "-", "*", "/", "%", "**", "<<", ">>", "|", "&", "^", "==", "!=", "<", ">", "<=", ">="}
	floatOps = []string{"+", "-", "*", "/", "**", "==", "!=", "<", ">", "<=", ">="}
	boolOps  = []string{"|", "&", "^", "&&", "||", "==", "!="}
	strOps   = []string{"+", "==", "!="}
)

const (
	formLit = iota
	formLocals
	formGlobals
	formCompoundLocal
	formCompoundGlobal
	formCompoundElem
	formCompoundField
	nForms
)

func isArith(op string) bool {
	switch op {
	case "==", "!=", "<", ">", "<=", ">=", "&&", "||":
		return false
	}
	return true
}

type opTable struct {
	name string
	typ  *hs.Type
	ops  []string
	n    int
	lit  func(i int) hs.Expr
}

var opTables = []opTable{
	{"int", hs.TInt, intOps, len(intVals), func(i int) hs.Expr { return hs.I(intVals[i]) }},
	{"float", hs.TFloat, floatOps, len(floatVals), floatOperand},
	{"bool", hs.TBool, boolOps, len(boolVals), func(i int) hs.Expr { return hs.B(boolVals[i]) }},
	{"str", hs.TStr, strOps, len(strVals), func(i int) hs.Expr { return hs.S(strVals[i]) }},
}

// floatOperand: the special values have no literal; they are computed (IEEE-754: 10.0 ** 400.0
// overflows to +Inf, Inf - Inf is NaN).
func floatOperand(i int) hs.Expr {
	v := floatVals[i]
	inf := func() hs.Expr { return hs.Bin("**", hs.F(10), hs.F(400)) }
	switch {
	case math.IsNaN(v):
		return &hs.Group{X: hs.Bin("-", inf(), inf())}
	case math.IsInf(v, 1):
		return &hs.Group{X: inf()}
	case math.IsInf(v, -1):
		return &hs.Group{X: hs.Bin("-", hs.F(0), inf())}
	}
	return hs.F(v)
}

func opTableCount(t opTable) int { return len(t.ops) * t.n * t.n * nForms }

func opsCount() int {
	n := 0
	for _, t := range opTables {
		n += opTableCount(t)
	}
	return n
}

// opsCase builds the idx-th S1 program; ok=false when the form does not apply (compound
// assignment with a non-arithmetic operator).
func opsCase(idx int) (progCase, bool) {
	for _, t := range opTables {
		c := opTableCount(t)
		if idx >= c {
			idx -= c
			continue
		}
		d := radix(idx, nForms, t.n, t.n, len(t.ops))
		form, bi, ai, op := d[0], d[1], d[2], t.ops[d[3]]
		a, b := t.lit(ai), t.lit(bi)
		compound := form >= formCompoundLocal
		if compound && (!isArith(op)) {
			return progCase{}, false
		}
		prog := &hs.Program{}
		var body []hs.Stmt
		switch form {
		case formLit:
			body = append(body, hs.Println(hs.Bin(op, a, b)))
		case formLocals:
			body = append(body, hs.LetS("x", a), hs.LetS("y", b), hs.Println(hs.Bin(op, hs.V("x"), hs.V("y"))))
		case formGlobals:
			prog.Globals = append(prog.Globals, &hs.Let{Name: "gx", X: a}, &hs.Let{Name: "gy", X: b})
			body = append(body, hs.Println(hs.Bin(op, hs.V("gx"), hs.V("gy"))))
		case formCompoundLocal:
			body = append(body, hs.LetS("x", a), hs.ES(hs.Asg(op+"=", hs.V("x"), b)), hs.Println(hs.V("x")))
		case formCompoundGlobal:
			prog.Globals = append(prog.Globals, &hs.Let{Name: "gx", X: a})
			body = append(body, hs.ES(hs.Asg(op+"=", hs.V("gx"), b)), hs.Println(hs.V("gx")))
		case formCompoundElem:
			body = append(body, hs.LetS("l", hs.List(a, a)), hs.ES(hs.Asg(op+"=", hs.Idx(hs.V("l"), hs.I(1)), b)), hs.Println(hs.Idx(hs.V("l"), hs.I(0)), hs.Idx(hs.V("l"), hs.I(1))))
		case formCompoundField:
			body = append(body, hs.LetS("o", &hs.ObjLit{Fields: []hs.ObjField{{Name: "f", X: a}}}), hs.ES(hs.Asg(op+"=", hs.Mem(hs.V("o"), "f"), b)), hs.Println(hs.Mem(hs.V("o"), "f")))
		}
		body = append(body, hs.Println(hs.S("end")))
		prog.Funcs = append(prog.Funcs, hs.Fn("main", nil, hs.Blk(nil, body...)))
		tags := []string{"type:" + t.name, "op:" + op}
		if compound {
			tags = append(tags, "compound")
		}
		return mkCase(prog, tags...), true
	}
	return progCase{}, false
}
