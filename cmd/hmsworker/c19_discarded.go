package main

import "fmt"

// C19, discarded expression statements: an expression statement directly in a function body
// whose value is thrown away may still fail at run time or call a function. Printing,
// re-parsing and - above all - the optimizer must keep it.

var c19Discarded = []string{
	"1", `"doc"`, "[1, 2][1]", "1 / 0", "7 % 0", "{ 7 % 0 }", "[1, 2][5]", "1 << (0 - 1)",
	"f()", "(f())", "-f()", "f() + 1", "1 + f() * 0", "f() == 1", "!g()", "?f()", "f() as float",
	"(f()..3)", "(0..f())", "[1, 2][f()]", "[f()]", "[f(), f()].len()", "new { a: f() }", "new { a: f() }.a",
	"if g() { 1 } else { 2 }", "if true { f() } else { 0 }", "match f() { 1 => 0, _ => 2 }", "try { f() } catch e { 0 }",
	"{ f(); 0 }", `"s".len()`, `"x".parse_int()`, "[0][f() - 1]", "g() && g()", "false && g()", "true || g()",
}

func c19DiscardedCount() int { return len(c19Discarded) * 3 }

func c19DiscardedRun(idx int, r *Result) {
	d := radix(idx, 3, len(c19Discarded))
	place, e := d[0], c19Discarded[d[1]]
	helpers := "fn f() -> int { println(\"f\"); 1 }\nfn g() -> bool { println(\"g\"); true }\n"
	var text string
	switch place {
	case 0: // in main, between two prints
		text = fmt.Sprintf("%sfn main() {\n    println(\"a\");\n    %s;\n    println(\"b\");\n}\n", helpers, e)
	case 1: // first statement of a called function
		text = fmt.Sprintf("%sfn work() {\n    %s;\n    println(\"w\");\n}\nfn main() {\n    println(\"a\");\n    work();\n    println(\"b\");\n}\n", helpers, e)
	default: // several in a row, the last statement of the body
		text = fmt.Sprintf("%sfn main() {\n    println(\"a\");\n    1;\n    %s;\n    2;\n    %s;\n}\n", helpers, e, e)
	}
	c19Oracle(text, []string{"discarded:" + e, fmt.Sprintf("place:%d", place)}, r)
}
