package main

// C06 "The token stream is a faithful image of the source text".
//
// Spaces (all enumerated completely, index-addressable):
//   strings     every string of length <= 3 (quick) / <= 4 (thorough) over feAlphabet
//   pairs       every ordered pair of lexemes x every separator
//   triples     every ordered triple of lexemes x every separator (thorough); quick: triples of
//               the "hot" lexemes (those whose scanner routine looks at the next rune) without
//               separator
// Oracle: kinds, values and spans of lexer.Lexer.NextToken == reflex; reflex error => the real
// lexer returns an error (and the tokens before it agree); TokenKind.String works for every
// kind that was produced.

import (
	"fmt"
	"strings"

	"hmsverif/internal/reflex"
)

// c06Lexemes: each operator, each keyword, identifiers, numbers of every shape, strings with
// every escape form, comments, and unterminated / illegal variants of every construct.
var c06Lexemes = func() []string {
	var ls []string
	ls = append(ls, reflex.Operators...)
	for _, kw := range []string{"true", "on", "false", "off", "null", "none", "pub", "fn", "if", "else", "match", "for", "while",
		"loop", "break", "continue", "return", "import", "as", "from", "let", "in", "type", "try", "catch", "new", "spawn",
		"event", "impl", "with", "templ", "trigger", "_"} {
		ls = append(ls, kw)
	}
	ls = append(ls,
		// identifiers
		"a", "a1", "fn1", "_a", "__", "iff", "f", "x_1", "A",
		// numbers
		"0", "9", "1_0", "10_000", "1f", "1.5", "1_.5", "1.", "1_", "1__0", "0f", "1.5_0", "01", "1_f", "1.5f",
		// strings
		`""`, `''`, `"a"`, `'a'`, `"'"`, `'"'`, `"\\"`, `"\n"`, `"\t"`, `"\r"`, `"\b"`, `"\""`, `'\''`,
		`"\x41"`, `"é"`, `"\U0001F600"`, `"\101"`, "\"é\"", "\"a\nb\"", `"//"`, `"/*"`,
		// comments
		"//c\n", "/*c*/", "/**/", "/*\n*/", "/* * / */", "/***/", "//",
		// unterminated and illegal
		`"a`, `'a`, `"\`, `"\x4"`, `"\u00e"`, `"\U0001F60"`, `"\10"`, `"\q"`, `"\8"`, "/*c", "/*c*", "~", `\`, "é", "\x00",
	)
	return ls
}()

// c06Hot: lexemes whose scanner routine peeks at or consumes the following rune.
var c06Hot = []string{"|", "&", "^", "||", "&&", "|=", "~>", "*", "**", "/", "=", "<", ">", "-", ".", "..", "!", "1", "1_", "1f", "10_000", "1.", "a", "_", "on", `"a"`, "//", "/**/", "\t", "\n"}

func c06Strings(tier string) int { return feStringsCount(feLen(tier)) }

func init() {
	register("C06", func() *Check {
		feTuneRuntime()
		L, S := len(c06Lexemes), len(feSeparators)
		return &Check{ID: "C06", Scenarios: []Scenario{
			{Name: "string-escapes", Count: func(string) int { return c06EscapeCount() }, Run: func(_ string, idx int, r *Result) { c06EscapeRun(idx, r) }},
			{Name: "strings", Count: c06Strings, Run: func(tier string, idx int, r *Result) {
				c06Oracle(feString(idx), nil, r)
			}},
			{Name: "numeric-literal-values", Count: func(string) int { return c06NumCount() }, Run: func(_ string, idx int, r *Result) { c06NumRun(idx, r) }},
			{Name: "adjacent-pairs", Count: func(string) int { return L * L * S }, Run: func(tier string, idx int, r *Result) {
				d := radix(idx, S, L, L)
				src := c06Lexemes[d[2]] + feSeparators[d[0]] + c06Lexemes[d[1]]
				c06Oracle(src, nil, r)
			}},
			{Name: "adjacent-triples", Count: func(tier string) int {
				if tier == "thorough" {
					return L * L * L * S
				}
				return len(c06Hot) * len(c06Hot) * len(c06Hot)
			}, Run: func(tier string, idx int, r *Result) {
				if tier == "thorough" {
					d := radix(idx, S, L, L, L)
					sep := feSeparators[d[0]]
					c06Oracle(c06Lexemes[d[3]]+sep+c06Lexemes[d[2]]+sep+c06Lexemes[d[1]], nil, r)
					return
				}
				H := len(c06Hot)
				d := radix(idx, H, H, H)
				c06Oracle(c06Hot[d[2]]+c06Hot[d[1]]+c06Hot[d[0]], nil, r)
			}},
		}}
	})
}

// gapTags describes what lies between the previous token and token i in the source.
func gapTags(rs []rune, ref []reflex.Tok, i int) []string {
	from := 0
	if i > 0 {
		from = ref[i-1].End.Idx + 1
	}
	to := ref[i].Start.Idx
	if from > to || to > len(rs) {
		return nil
	}
	gap := string(rs[from:to])
	var tags []string
	if strings.Contains(gap, "//") {
		tags = append(tags, "gap:line-comment")
	}
	if strings.Contains(gap, "/*") {
		tags = append(tags, "gap:block-comment")
	}
	return tags
}

// c06Oracle compares the real lexer with the reference on one text.
func c06Oracle(src string, extra []string, r *Result) {
	ref := reflex.Lex(src, feFile)
	real := realLex(src, feFile)
	r.Trans(real.Calls)
	rs := []rune(src)
	cas := showText(src)
	tags := func(t ...string) []string { return append(append([]string{}, t...), extra...) }

	// observation key: the kind sequence the real lexer produced, and how it ended
	var kb strings.Builder
	for _, t := range real.Toks {
		kb.WriteString(t.Kind)
		kb.WriteByte(' ')
	}
	switch {
	case real.Panic != "":
		kb.WriteString("PANIC")
	case real.Err != "":
		kb.WriteString("ERR:" + normMsg(real.Err))
	}
	r.Distinct(kb.String())
	r.Sample(cas)

	if real.Panic != "" {
		tg := []string{}
		if n := len(real.Toks); n < len(ref.Toks) {
			tg = append(tg, reflex.Feature(ref.Toks[n]))
		}
		r.Outcome("host-panic")
		failCapped(r, "HOST-PANIC:"+panicFunc(real.Site)+":"+normMsg(real.Panic), tags(tg...), cas, "lexer panicked: "+real.Panic+"\n"+real.Site)
		return
	}
	if real.NoEOF {
		r.Outcome("no-eof")
		failCapped(r, "TOKENS:no-EOF-within-one-token-per-rune", tags(), cas, "NextToken did not deliver EOF after len+2 calls: "+tokLine(real.Toks))
		return
	}
	// TokenKind.String must work for every kind the lexer hands out
	seenKind := map[string]bool{}
	for i, k := range real.Kinds {
		name := real.Toks[i].Kind
		if seenKind[name] {
			continue
		}
		seenKind[name] = true
		s, p := kindString(k)
		want := name
		if p != "" {
			failCapped(r, "HOST-PANIC:lexer.TokenKind.String:"+normMsg(p), tags("kind:"+name), cas, fmt.Sprintf("TokenKind(%d).String() panicked: %s", k, p))
		} else if s != want {
			failCapped(r, "KINDNAME", tags("kind:"+name), cas, fmt.Sprintf("TokenKind(%d).String() = %q, want %q", k, s, want))
		}
	}
	if len(ref.Masked) > 0 {
		for _, m := range ref.Masked {
			r.Note("masked:"+m, 1)
		}
		r.Outcome("masked(unspecified)")
		return
	}

	if ref.OpenComment != nil {
		// an unclosed block comment: reject, or skip to the end of the text
		for _, t := range real.Toks {
			if t.Kind != "EOF" && t.Start.Idx > ref.OpenComment.Idx {
				r.Outcome("mismatch")
				failCapped(r, "TOKENS:token-inside-unclosed-block-comment", tags("gap:block-comment"), cas,
					fmt.Sprintf("`/*` at index %d is never closed, yet %s at index %d is a token\nreal: %s", ref.OpenComment.Idx, t.Kind, t.Start.Idx, tokLine(real.Toks)))
				return
			}
		}
		if real.Err != "" {
			n := 0
			for n < len(ref.Toks) && ref.Toks[n].Kind != "EOF" && ref.Toks[n].End.Idx < ref.OpenComment.Idx {
				n++
			}
			if len(real.Toks) == n && sameTokens(ref.Toks[:n], real.Toks) {
				r.Outcome("unclosed-comment-rejected")
				return
			}
		}
	}
	detail := func() string {
		d := "reference: " + tokLine(ref.Toks)
		if ref.Err != nil {
			d += fmt.Sprintf("  ERROR(%s at index %d)", ref.Err.What, ref.Err.At.Idx)
		}
		d += "\nreal:      " + tokLine(real.Toks)
		if real.Err != "" {
			d += fmt.Sprintf("  ERROR(%q at index %d)", real.Err, real.ErrIdx)
		}
		return d
	}

	// Compare the two streams in order; a lexical error is the last element of a stream.
	// Attribution of a deviation at element i: if both streams start the element at the same
	// index the element itself is the culprit (tag = its feature, or the offending character for
	// an error); otherwise the scanner lost sync before it: the culprit is the previous token if
	// its span already deviated, else a comment in the gap, else the previous token. Kind and
	// value deviations and loss of sync end the comparison (the rest is a consequence).
	type elem struct {
		tok reflex.Tok
		err bool
	}
	seq := func(ts []reflex.Tok, err bool) []elem {
		var out []elem
		for _, t := range ts {
			out = append(out, elem{tok: t})
		}
		if err {
			out = append(out, elem{err: true})
		}
		return out
	}
	sa, sb := seq(ref.Toks, ref.Err != nil), seq(real.Toks, real.Err != "")
	bad := false
	prevDeviated := false
	refErrIdx := -1
	if ref.Err != nil {
		refErrIdx = ref.Err.At.Idx
	}
	for i := 0; i < len(sa) && i < len(sb); i++ {
		a, b := sa[i], sb[i]
		if a.err && b.err {
			break
		}
		startA, startB := a.tok.Start.Idx, b.tok.Start.Idx
		if a.err {
			startA = refErrIdx
		}
		if b.err {
			startB = real.ErrIdx
		}
		upstream := func() []string {
			if i == 0 {
				if !a.err {
					return gapTags(rs, ref.Toks, i)
				}
				return nil
			}
			if !prevDeviated && !a.err {
				if g := gapTags(rs, ref.Toks, i); len(g) > 0 {
					return g
				}
			}
			return []string{"after:" + reflex.Feature(ref.Toks[i-1])}
		}
		if b.err {
			bad = true
			tg := []string{"char:" + reflex.RuneName(runeAt(src, real.ErrIdx))}
			if prevDeviated && startB > startA {
				tg = upstream()
			}
			failCapped(r, "TOKENS:valid-text-rejected", tags(tg...), cas, detail())
			break
		}
		if a.err {
			bad = true
			tg := []string{"at:" + reflex.RuneName(runeAt(src, refErrIdx)), "ref:" + ref.Err.What}
			if prevDeviated {
				tg = upstream()
			}
			failCapped(r, "TOKENS:invalid-text-accepted", tags(tg...), cas, detail())
			break
		}
		inSync := startA == startB
		own := []string{reflex.Feature(a.tok)}
		if !inSync {
			own = upstream()
		}
		if a.tok.Kind != b.tok.Kind {
			what := "kind"
			if b.tok.Kind == "EOF" {
				what = "token-lost"
			}
			bad = true
			failCapped(r, "TOKENS:"+what, tags(own...), cas, fmt.Sprintf("token %d: reference %s, real %s\n%s", i, a.tok.Kind, b.tok.Kind, detail()))
			break
		}
		if a.tok.Value != b.tok.Value {
			if a.tok.Kind == "~>" {
				// `~>` is not in grammar.ebnf; what its Value should be is not stated anywhere
				r.Note("masked:value-of-~>", 1)
			} else {
				bad = true
				failCapped(r, "TOKENS:value", tags(own...), cas, fmt.Sprintf("token %d (%s): reference value %q, real value %q\n%s", i, a.tok.Kind, a.tok.Value, b.tok.Value, detail()))
				break
			}
		}
		var whats []string
		if a.tok.Start != b.tok.Start {
			whats = append(whats, "start")
		}
		if a.tok.End != b.tok.End {
			whats = append(whats, "end")
		}
		if a.tok.File != b.tok.File {
			whats = append(whats, "filename")
		}
		prevDeviated = len(whats) > 0
		if len(whats) > 0 {
			bad = true
			if !inSync && a.tok.Kind == "EOF" {
				own = append([]string{"tok:EOF"}, own...)
			}
			for _, w := range whats {
				failCapped(r, "SPAN:"+w, tags(own...), cas, fmt.Sprintf("token %d (%s)\n%s", i, a.tok.Kind, detail()))
			}
			if !inSync {
				break
			}
		}
	}
	if bad {
		r.Outcome("mismatch")
		return
	}
	if ref.Err != nil {
		r.Outcome("both-reject")
	} else {
		r.Outcome("tokens-equal")
	}
}
