package main

import (
	"fmt"
	"strings"
)

// C02, options with a dynamic payload flowing into typed positions: `o.get("k")` and `o->k` on an
// any-object have the type `?any`; the analyzer lets an option-typed expression stand without a
// cast. Wherever the analyzer accepts such a value in a position typed `?int` (next to a `?int`
// in a list literal, as an argument, a result, an assigned value, a field), using the payload as
// an int must end in an outcome of the language - never in a crash of the host.

var c02DynSources = []struct{ name, expr string }{
	{"get", `o.get("k")`},
	{"arrow", `o->k`},
	{"get-of-missing", `o.get("nope")`},
}
var c02DynSinks = []struct{ name, pre, stmts string }{
	{"list-literal-next-to-a-typed-option", "", "let a: ?int = ?1;\n    let l = [a, SRC];\n    let v = l[1];"},
	{"argument", "fn take(p: ?int) -> ?int { p }\n", "let v = take(SRC);"},
	{"result", "fn give(o: { ? }) -> ?int { SRC }\n", "let v = give(o);"},
	{"assignment", "", "let v: ?int = ?1;\n    v = SRC;"},
	{"object-field", "", "let holder: { slot: ?int } = new { slot: ?1 };\n    holder.slot = SRC;\n    let v = holder.slot;"},
	{"annotated-let", "", "let v: ?int = SRC;"},
	{"cast", "", "let v = SRC as ?int;"},
}
var c02DynUses = []string{"unwrap-plus-one", "unwrap_or-plus-one", "printed", "compared"}

func c02DynCount() int { return len(c02DynSources) * len(c02DynSinks) * len(c02DynUses) }

func c02DynRun(idx int, r *Result) {
	d := radix(idx, len(c02DynUses), len(c02DynSinks), len(c02DynSources))
	use, sink, src := c02DynUses[d[0]], c02DynSinks[d[1]], c02DynSources[d[2]]
	var useStmt string
	switch use {
	case "unwrap-plus-one":
		useStmt = "println(v.unwrap() + 1);"
	case "unwrap_or-plus-one":
		useStmt = "println(v.unwrap_or(5) + 1);"
	case "printed":
		useStmt = "println(v);"
	case "compared":
		useStmt = "println(v == ?1, v == none);"
	}
	text := strings.ReplaceAll(sink.pre, "SRC", src.expr) + "fn main() {\n    let o = new { ? };\n    o.set(\"k\", \"str\");\n    try {\n    " +
		strings.ReplaceAll(strings.ReplaceAll(sink.stmts, "SRC", src.expr), "\n    ", "\n        ") + "\n        " + useStmt + "\n    } catch e {\n        println(\"caught\");\n    }\n    println(\"end\");\n}\n"
	tags := []string{"dynamic-option-into-typed-option", "source:" + src.name, "sink:" + sink.name, "use:" + use}
	mods := map[string]string{"main": text}
	a := Analyze(mods, true)
	r.Trans(1)
	if a.Obs.Class == "HOST-PANIC" {
		r.Fail("HOST-PANIC:"+panicFunc(a.Obs.PanicSite)+":"+normMsg(a.Obs.Msg), append([]string{"stage:analyze"}, tags...), text, a.Obs.String())
		return
	}
	if len(a.Syn) > 0 {
		r.Fail("HARNESS:dynamic-option program has a syntax error", tags, text, a.Obs.String())
		return
	}
	if !a.Obs.Accepted() {
		r.Note("dynamic-option:rejected-by-the-analyzer:"+sink.name, 1)
		r.Outcome("rejected")
		return
	}
	r.Sample(text)
	for _, b := range backendNames {
		o := runOn(b, a, r)
		r.Distinct(fmt.Sprintf("dynopt|%s|%s|%s|%s|%s", src.name, sink.name, use, b, o.Key()))
		r.Outcome(b + ":" + o.Class)
		if cc := crashClass(o); cc != "" && !strings.HasPrefix(cc, "HANG") {
			r.Fail(cc, append([]string{"backend:" + b}, tags...), text, o.String())
		}
	}
}

// C02, dynamic containers whose first component conforms and a later one does not: a JSON list
// `[1, "two", 3]` bound to `[int]`, an object whose second field has the wrong type, nested
// lists. Wherever the value is admitted, using every component as its static type says must end
// in an outcome of the language (the cast error, if the value is refused) - never in a crash.

var c02HetValues = []struct{ name, json, ty, use string }{
	{"int-list-with-a-string-second", `[1, \"two\", 3]`, "[int]", "let t = 0;\n        for x in v { t += x; }\n        println(t);"},
	{"int-list-with-a-string-last", `[1, 2, \"three\"]`, "[int]", "let t = 0;\n        for x in v { t += x; }\n        println(t);"},
	{"str-list-with-an-int-second", `[\"a\", 2]`, "[str]", "let t = \"\";\n        for x in v { t = t + x; }\n        println(t);"},
	{"bool-list-with-an-int-second", `[true, 0]`, "[bool]", "let t = true;\n        for x in v { t = t && x; }\n        println(t);"},
	{"float-list-with-a-string-second", `[1.5, \"x\"]`, "[float]", "let t = 0.0;\n        for x in v { t += x; }\n        println(t);"},
	{"nested-list-with-a-string-in-the-second-row", `[[1], [\"x\"]]`, "[[int]]", "let t = 0;\n        for r in v { for x in r { t += x; } }\n        println(t);"},
	{"object-with-a-wrong-second-field", `{\"a\": 1, \"b\": \"x\"}`, "{ a: int, b: int }", "println(v.a + v.b);"},
	{"list-of-objects-with-a-wrong-second-one", `[{\"a\": 1}, {\"a\": \"x\"}]`, "[{ a: int }]", "let t = 0;\n        for o in v { t += o.a; }\n        println(t);"},
	{"option-list-with-a-string-second", `[1, \"two\"]`, "[?int]", "let t = 0;\n        for x in v { t += x.unwrap_or(0); }\n        println(t);"},
}
var c02HetSinks = []struct{ name, stmt string }{
	{"annotated-let", "let v: TY = SRC;"},
	{"cast", "let v = SRC as TY;"},
	{"annotated-let-of-a-variable", "let a: any = SRC;\n        let v: TY = a;"},
	{"argument-after-cast", "let v = keep(SRC as TY);"},
}

func c02HetCount() int { return len(c02HetValues) * len(c02HetSinks) }

func c02HetRun(idx int, r *Result) {
	d := radix(idx, len(c02HetSinks), len(c02HetValues))
	sink, val := c02HetSinks[d[0]], c02HetValues[d[1]]
	src := "\"" + val.json + "\".parse_json()"
	stmt := strings.ReplaceAll(strings.ReplaceAll(sink.stmt, "SRC", src), "TY", val.ty)
	text := "fn keep(p: " + val.ty + ") -> " + val.ty + " { p }\nfn main() {\n    try {\n        " + stmt + "\n        " + val.use + "\n    } catch e {\n        println(\"caught\");\n    }\n    println(\"end\");\n}\n"
	tags := []string{"heterogeneous-dynamic-container", "value:" + val.name, "sink:" + sink.name}
	a := Analyze(map[string]string{"main": text}, true)
	r.Trans(1)
	if a.Obs.Class == "HOST-PANIC" {
		r.Fail("HOST-PANIC:"+panicFunc(a.Obs.PanicSite)+":"+normMsg(a.Obs.Msg), append([]string{"stage:analyze"}, tags...), text, a.Obs.String())
		return
	}
	if len(a.Syn) > 0 {
		r.Fail("HARNESS:heterogeneous-container program has a syntax error", tags, text, a.Obs.String())
		return
	}
	if !a.Obs.Accepted() {
		r.Note("heterogeneous-container:rejected-by-the-analyzer:"+sink.name, 1)
		r.Outcome("rejected")
		return
	}
	r.Sample(text)
	for _, b := range backendNames {
		o := runOn(b, a, r)
		r.Distinct(fmt.Sprintf("het|%s|%s|%s|%s", val.name, sink.name, b, o.Key()))
		r.Outcome(b + ":" + o.Class)
		if cc := crashClass(o); cc != "" && !strings.HasPrefix(cc, "HANG") {
			r.Fail(cc, append([]string{"backend:" + b}, tags...), text, o.String())
		}
	}
}
