package main

import (
	"fmt"
	"strings"

	"github.com/smarthome-go/homescript/v3/homescript/analyzer/ast"
	"github.com/smarthome-go/homescript/v3/homescript/compiler"
	"github.com/smarthome-go/homescript/v3/homescript/runtime"
)

// C09, a limit exceeded on another core than the invoked one: the host calls an entry function
// through VM.SpawnSync, the entry spawns a thread and the thread is the one that runs into the
// call-depth or memory limit. Under every schedule (bounded deviations) the host is told: the
// invocation ends with the fatal interrupt of the limit, never with a "successful" result read
// from a cancelled core and never with a host panic.

const c09SpawnedSource = `fn deep(n: int) -> int {
    let a = n + 1;
    deep(a) + 1
}
fn worker() {
    deep(0);
}
fn fine(n: int) -> int {
    if n == 0 { 0 } else { fine(n - 1) + 1 }
}
fn entry_null() {
    spawn worker();
}
fn entry_int() -> int {
    spawn worker();
    7
}
fn entry_str() -> str {
    spawn worker();
    let i = 0;
    while i < 30 { i += 1; }
    "done"
}
fn entry_ok() -> int {
    spawn fine(3);
    fine(4)
}
fn main() {}
`

func c09SpawnedBody(entry string, ret ast.Type, lim runtime.CoreLimits) func(h *hostEnv, prog compiler.CompileOutput) {
	return func(h *hostEnv, prog compiler.CompileOutput) {
		vm := h.newVM(prog, lim)
		res := vm.SpawnSync(runtime.FunctionInvocation{Function: entry, FunctionSignature: runtime.FunctionInvocationSignature{ReturnType: ret}}, nil, nil)
		if res.Exception != nil {
			o := Obs{}
			i := res.Exception.Interrupt
			classifyVM(&o, &i, nil)
			h.log("result:%s%s", o.Class, kindSuffix(o.Kind))
			return
		}
		d := "<nil>"
		if res.ReturnValue != nil {
			d = showValue(res.ReturnValue)
		}
		h.log("result:ok %s", d)
	}
}

// A thread that exceeds a limit while the host waits with VM.Wait: main starts short-lived
// threads, then the thread that recurses too deep. Whenever a short thread finishes, the wait
// takes it off the list of cores - a core spawned in that very moment must stay on the list,
// or its fatal interrupt is never read and the wait reports a normal end.
const c09WaitSource = `fn deep(n: int) -> int {
    let a = n + 1;
    deep(a) + 1
}
fn worker() {
    deep(0);
}
fn short() {}
fn main() {
    spawn short();
    spawn short();
    let i = 0;
    while i < 3 { i += 1; }
    spawn worker();
}
`

func c09WaitBody(lim runtime.CoreLimits) func(h *hostEnv, prog compiler.CompileOutput) {
	return func(h *hostEnv, prog compiler.CompileOutput) {
		vm := h.newVM(prog, lim)
		vm.SpawnAsync(runtime.MainFn(), nil, nil, nil)
		_, i := vm.Wait()
		if i != nil {
			o := Obs{}
			classifyVM(&o, i, nil)
			h.log("result:%s%s", o.Class, kindSuffix(o.Kind))
			return
		}
		h.log("result:ok")
	}
}

func c09SpawnedCases() []schedCase {
	intT, strT, nullT := ast.NewIntType(sp), ast.NewStringType(sp), ast.NewNullType(sp)
	lims := []struct {
		name string
		lim  runtime.CoreLimits
		want string
	}{
		{"call-depth", runtime.CoreLimits{CallStackMaxSize: 12, StackMaxSize: 200, MaxMemorySize: 4000}, "result:fatal/StackOverflow"},
		{"memory", runtime.CoreLimits{CallStackMaxSize: 100, StackMaxSize: 200, MaxMemorySize: 24}, "result:fatal/OutOfMemory"},
	}
	entries := []struct {
		name string
		ret  ast.Type
		ok   string // result of an entry that stays within the limits
	}{{"entry_null", nullT, ""}, {"entry_int", intT, ""}, {"entry_str", strT, ""}, {"entry_ok", intT, "result:ok 4"}}
	var cases []schedCase
	for _, l := range lims {
		for _, e := range entries {
			want := l.want
			if e.ok != "" {
				want = e.ok
			}
			name := e.name + " under a small " + l.name + " limit"
			cases = append(cases, schedCase{
				Name:   name,
				Source: c09SpawnedSource + "// host: SpawnSync(" + e.name + "), limits " + limStr(l.lim) + "\n",
				Bound:  map[string]int{"quick": 2, "thorough": 3},
				Body:   c09SpawnedBody(e.name, e.ret, l.lim),
				Tags:   []string{"entry:" + e.name, "limit:" + l.name},
				Judge: func(o execObs) (string, string) {
					got := ""
					for _, ev := range o.Events {
						if strings.HasPrefix(ev, "result:") {
							got = ev
						}
					}
					if got != want {
						return "SPAWNED-LIMIT:the invocation reports " + strings.SplitN(got+" ", " ", 2)[0] + " instead of " + strings.SplitN(want+" ", " ", 2)[0], fmt.Sprintf("expected %q, events %q", want, o.Events)
					}
					if len(o.Blocked) > 0 {
						return "LEFT-BLOCKED:" + blockedOps(o.Blocked), fmt.Sprintf("blocked=%v", o.Blocked)
					}
					return "", ""
				},
			})
		}
	}
	waitLim := runtime.CoreLimits{CallStackMaxSize: 12, StackMaxSize: 200, MaxMemorySize: 4000}
	cases = append(cases, schedCase{
		Name:   "a thread spawned while the wait takes a finished one off its list exceeds the call depth",
		Source: c09WaitSource + "// host: SpawnAsync(main), Wait(), limits " + limStr(waitLim) + "\n",
		Bound:  map[string]int{"quick": 2, "thorough": 3},
		Body:   c09WaitBody(waitLim),
		Tags:   []string{"entry:main-with-wait", "limit:call-depth"},
		Judge: func(o execObs) (string, string) {
			got := ""
			for _, ev := range o.Events {
				if strings.HasPrefix(ev, "result:") {
					got = ev
				}
			}
			if got != "result:fatal/StackOverflow" {
				return "SPAWNED-LIMIT:the wait reports " + got + " instead of result:fatal/StackOverflow", fmt.Sprintf("events %q", o.Events)
			}
			if len(o.Blocked) > 0 {
				return "LEFT-BLOCKED:" + blockedOps(o.Blocked), fmt.Sprintf("blocked=%v", o.Blocked)
			}
			return "", ""
		},
	})
	return cases
}
