package main

// C03 base families: impl blocks vs templates, trigger callbacks, main, imports, `any`
// sources, constant global initialisers.

import (
	"fmt"
	"sort"

	"hmsverif/internal/hs"
	"hmsverif/internal/reftype"
)

// ---------------------------------------------------------------- family: impls

type implVariant struct {
	templ   string
	caps    []string // nil: no `with`
	methods []string
}

var c03ImplVariants = []implVariant{
	{"Lamp", []string{"light"}, []string{"dim"}},
	{"Lamp", []string{"temperature"}, []string{"set_temp"}},
	{"Lamp", []string{"named"}, []string{"label"}},
	{"Lamp", []string{"light", "named"}, []string{"dim", "label"}},
	{"Lamp", []string{"named", "temperature"}, []string{"label", "set_temp"}},
	{"Sensor", nil, []string{"read"}},
	{"Sensor", []string{"logging"}, []string{"read", "record"}},
	{"Sensor", []string{"base", "logging"}, []string{"record", "read"}},
	{"Device", nil, []string{"status", "on_change"}},
	{"Device", []string{"base", "resetting"}, []string{"on_change", "reset", "status"}},
}

const nImplStyles = 8

func c03ImplsCase(tier string, idx int) *c03Case {
	d := radix(idx, nImplStyles, len(c03ImplVariants))
	style, v := d[0], c03ImplVariants[d[1]]
	tags := []string{"template:" + v.templ, fmt.Sprintf("style:%d", style), fmt.Sprintf("caps:%d", len(v.caps))}
	p := &hs.Program{}
	p.Imports = append(p.Imports, hs.Import{Names: []string{"templ " + v.templ}, From: "templates"})
	single0 := hs.SingletonDecl{Name: "Dev", T: hs.TObj(hs.Field{Name: "level", T: hs.TInt}, hs.Field{Name: "name", T: hs.TStr})}
	p.Singletons = append(p.Singletons, single0)
	if style == 4 {
		p.Singletons = append(p.Singletons, hs.SingletonDecl{Name: "Other", T: hs.TObj(hs.Field{Name: "active", T: hs.TBool})})
	}
	intT, strT := hs.TInt, hs.TStr
	if style == 3 { // parameter types written through aliases
		p.Types = append(p.Types, &hs.TypeDef{Name: "Num", T: hs.TInt}, &hs.TypeDef{Name: "Text", T: hs.TStr})
		intT, strT = hs.TNamed("Num"), hs.TNamed("Text")
	}
	self := hs.Param{Name: "self", Single: "Dev"}
	extra := []hs.Param{}
	if style == 4 { // a second singleton extracted as well
		extra = append(extra, hs.Param{Name: "other", Single: "Other"})
	}
	ib := &hs.ImplBlock{Template: v.templ, Caps: v.caps, Singleton: "Dev"}
	var calls []hs.Stmt
	for _, m := range v.methods {
		ps := append([]hs.Param{self}, extra...)
		var f *hs.Func
		switch m {
		case "dim":
			body := hs.Blk(hs.Bin("==", hs.Mem(hs.V("self"), "level"), hs.V("percent")))
			if style == 1 { // assignment to the singleton, early return
				body = hs.Blk(hs.B(true), ifThen(hs.Bin("<", hs.V("percent"), hs.I(0)), &hs.Return{X: hs.B(false)}), hs.ES(hs.Asg("=", hs.Mem(hs.V("self"), "level"), hs.V("percent"))))
			}
			f = &hs.Func{Name: "dim", Params: append(ps, hs.P("percent", intT)), Ret: hs.TBool, Body: body}
			calls = append(calls, hs.LetT("ok", hs.TBool, hs.CallN("dim", hs.I(40))), use("ok"))
		case "set_temp":
			f = &hs.Func{Name: "set_temp", Params: append(ps, hs.P("celsius", hs.TFloat)), Body: hs.Blk(nil, hs.Println(hs.V("celsius"), hs.Mem(hs.V("self"), "name")))}
			calls = append(calls, hs.ES(hs.CallN("set_temp", hs.F(21.5))))
		case "label":
			body := hs.Blk(hs.Mem(hs.V("self"), "name"))
			if style == 2 { // closure inside a method, return after it
				body = hs.Blk(nil, hs.LetS("k", fnLit(hs.TInt, hs.Blk(hs.I(1)))), use("k"), &hs.Return{X: hs.Mem(hs.V("self"), "name")})
			}
			f = &hs.Func{Name: "label", Params: ps, Ret: hs.TStr, Body: body}
			calls = append(calls, hs.LetT("lb", hs.TStr, hs.CallN("label")), use("lb"))
		case "read":
			f = &hs.Func{Name: "read", Params: append(ps, hs.P("channel", intT), hs.P("unit", strT)), Ret: hs.TFloat,
				Body: hs.Blk(hs.F(0.5), hs.Println(hs.V("channel"), hs.V("unit"), hs.Mem(hs.V("self"), "level")))}
			calls = append(calls, hs.LetT("rd", hs.TFloat, hs.CallN("read", hs.I(1), hs.S("C"))), use("rd"))
		case "status":
			f = &hs.Func{Name: "status", Pub: true, Params: ps, Ret: hs.TStr, Body: hs.Blk(hs.Mem(hs.V("self"), "name"))}
			calls = append(calls, hs.LetT("st", hs.TStr, hs.CallN("status")), use("st"))
		case "on_change":
			f = &hs.Func{Name: "on_change", Event: true, Params: append(ps, hs.P("value", intT)), Body: hs.Blk(nil, hs.ES(hs.Asg("=", hs.Mem(hs.V("self"), "level"), hs.V("value"))))}
		case "reset":
			f = &hs.Func{Name: "reset", Params: ps, Body: hs.Blk(nil, hs.ES(hs.Asg("=", hs.Mem(hs.V("self"), "level"), hs.I(0))))}
			calls = append(calls, hs.ES(hs.CallN("reset")))
		case "record":
			f = &hs.Func{Name: "record", Params: append(ps, hs.P("values", hs.TList(intT))),
				Body: hs.Blk(nil, &hs.For{Var: "v", Iter: hs.V("values"), Body: hs.Blk(nil, hs.ES(hs.Asg("+=", hs.Mem(hs.V("self"), "level"), hs.V("v"))))})}
			calls = append(calls, hs.ES(hs.CallN("record", hs.List(hs.I(1), hs.I(2)))))
		}
		ib.Methods = append(ib.Methods, f)
	}
	p.Impls = append(p.Impls, ib)
	if style == 5 { // the singleton is also used directly and extracted by a plain function
		calls = append(calls, hs.Println(hs.Mem(&hs.Single{Name: "Dev"}, "name")), hs.ES(hs.CallN("peek")))
		p.Funcs = append(p.Funcs, hs.Fn("peek", nil, hs.Blk(nil, hs.Println(hs.Mem(hs.V("d"), "level"))), hs.Param{Name: "d", Single: "Dev"}))
	}
	if style == 6 || style == 7 {
		// a function that extracts the singleton (and takes one ordinary argument), called through a
		// value that holds it: the extraction is not an argument, whatever way the function is reached
		p.Funcs = append(p.Funcs, hs.Fn("bump", hs.TInt, hs.Blk(hs.Bin("+", hs.Mem(hs.V("d"), "level"), hs.V("by"))), hs.Param{Name: "d", Single: "Dev"}, hs.P("by", hs.TInt)))
		calls = append(calls, hs.LetS("handle", hs.V("bump")), hs.LetT("r1", hs.TInt, hs.CallN("handle", hs.I(2))), use("r1"))
		if style == 7 {
			// ... and handed on once more, and called directly in between
			calls = append(calls, hs.LetS("again", hs.V("handle")), hs.LetT("r2", hs.TInt, hs.CallN("bump", hs.I(1))), use("r2"), hs.LetT("r3", hs.TInt, hs.CallN("again", hs.CallN("handle", hs.I(3)))), use("r3"))
		}
	}
	p.Funcs = append([]*hs.Func{mainFn(calls...)}, p.Funcs...)
	return single(p, tags...)
}

// ---------------------------------------------------------------- family: triggers

type trigVariant struct {
	name   string
	cbP    []hs.Param // callback parameters, names as the host spells them
	altP   []string   // other names for the same parameters
	args   func(form int) []hs.Expr
	needsV []hs.Stmt // declarations the argument forms rely on
}

var c03TrigVariants = []trigVariant{
	{"minute", []hs.Param{hs.P("elapsed", hs.TInt)}, []string{"m"}, func(form int) []hs.Expr {
		switch form {
		case 0:
			return []hs.Expr{hs.I(5)}
		case 1:
			return []hs.Expr{hs.V("iv")}
		}
		return []hs.Expr{hs.Bin("*", hs.V("iv"), hs.I(2))}
	}, nil},
	{"message", []hs.Param{hs.P("topic", hs.TStr), hs.P("payload", hs.TStr)}, []string{"t", "body"}, func(form int) []hs.Expr {
		switch form {
		case 0:
			return []hs.Expr{hs.S("home/x"), hs.I(1)}
		case 1:
			return []hs.Expr{hs.V("sv"), hs.V("iv")}
		}
		return []hs.Expr{hs.Bin("+", hs.V("sv"), hs.S("/#")), hs.Bin("+", hs.V("iv"), hs.I(1))}
	}, nil},
	{"boot", nil, nil, func(int) []hs.Expr { return nil }, nil},
}

const (
	nTrigNames  = 2
	nTrigPlaces = 8
	nTrigForms  = 3
)

func c03TriggersCase(tier string, idx int) *c03Case {
	d := radix(idx, nTrigNames, nTrigPlaces, nTrigForms, len(c03TrigVariants))
	names, place, form, v := d[0], d[1], d[2], c03TrigVariants[d[3]]
	tags := []string{"trigger:" + v.name, fmt.Sprintf("names:%d", names), fmt.Sprintf("place:%d", place), fmt.Sprintf("form:%d", form)}
	if len(v.cbP) == 0 && (names == 1 || form > 0) {
		return nil
	}
	p := &hs.Program{}
	p.Imports = append(p.Imports, hs.Import{Names: []string{"trigger " + v.name}, From: "triggers"})
	cb := &hs.Func{Name: "on_event", Event: true, Body: hs.Blk(nil)}
	for i, q := range v.cbP {
		n := q.Name
		if names == 1 {
			n = v.altP[i]
		}
		cb.Params = append(cb.Params, hs.P(n, q.T))
		cb.Body.Stmts = append(cb.Body.Stmts, use(n))
	}
	tr := &hs.Trigger{Callback: "on_event", Kind: "at", Event: v.name, Args: v.args(form)}
	decl := []hs.Stmt{hs.LetS("iv", hs.I(3)), hs.LetS("sv", hs.S("home")), use("iv"), use("sv")}
	switch place {
	case 0: // directly in main
		p.Funcs = append(p.Funcs, mainFn(append(decl, tr)...))
	case 1: // in a helper function
		p.Funcs = append(p.Funcs, mainFn(hs.ES(hs.CallN("setup"))), hs.Fn("setup", nil, hs.Blk(nil, append(decl, tr)...)))
	case 2: // inside an if
		p.Funcs = append(p.Funcs, mainFn(append(decl, ifThen(hs.Bin(">", hs.V("iv"), hs.I(1)), tr))...))
	case 3: // inside a loop
		p.Funcs = append(p.Funcs, mainFn(append(decl, &hs.For{Var: "i", Iter: rng(2), Body: hs.Blk(nil, use("i"), tr)})...))
	case 4: // callback defined before main, trigger after a closure literal
		p.Funcs = append(p.Funcs, cb, mainFn(append(decl, hs.LetS("k", fnLit(hs.TInt, hs.Blk(hs.I(1)))), use("k"), tr)...))
		return single(p, tags...)
	case 6, 7: // declared on the callback itself: `#[trigger at name(args)] event fn ...` (arguments in module scope)
		p.Globals = append(p.Globals, &hs.Let{Name: "iv", X: hs.I(3)}, &hs.Let{Name: "sv", X: hs.S("home")})
		cb.Annots = []hs.Annot{{Trig: &hs.Trigger{Kind: "at", Event: v.name, Args: v.args(form)}}}
		if place == 7 { // next to the one identifier annotation there is, on a callback nothing else mentions
			cb.Annots = append([]hs.Annot{{Ident: "allow_unused"}}, cb.Annots...)
		}
		p.Funcs = append(p.Funcs, mainFn(use("iv"), use("sv")))
	case 5: // in a helper that is defined before the callback and called from a closure
		p.Funcs = append(p.Funcs, hs.Fn("setup", nil, hs.Blk(nil, append(decl, tr)...)), mainFn(hs.LetS("k", fnLit(nil, hs.Blk(nil, hs.ES(hs.CallN("setup"))))), hs.ES(hs.CallE(hs.V("k")))))
	}
	p.Funcs = append(p.Funcs, cb)
	return single(p, tags...)
}

// ---------------------------------------------------------------- family: modules (main, imports)

const nModuleForms = 16

func c03ModulesCase(tier string, idx int) *c03Case {
	form := idx
	tags := []string{fmt.Sprintf("form:%d", form)}
	p := &hs.Program{}
	lib := libProg()
	lib.Types = append(lib.Types, &hs.TypeDef{Name: "Point", T: hs.TObj(hs.Field{Name: "x", T: hs.TInt}, hs.Field{Name: "y", T: hs.TInt}), Pub: true},
		&hs.TypeDef{Name: "Hidden", T: hs.TStr})
	lib.Globals = append(lib.Globals, &hs.Let{Name: "origin", T: hs.TNamed("Point"), X: &hs.ObjLit{Fields: []hs.ObjField{{Name: "x", X: hs.I(0)}, {Name: "y", X: hs.I(0)}}}, Pub: true},
		&hs.Let{Name: "secret", X: hs.I(7)})
	lib.Funcs = append(lib.Funcs,
		&hs.Func{Name: "mk", Pub: true, Params: []hs.Param{hs.P("x", hs.TInt), hs.P("y", hs.TInt)}, Ret: hs.TNamed("Point"),
			Body: hs.Blk(&hs.ObjLit{Fields: []hs.ObjField{{Name: "x", X: hs.V("x")}, {Name: "y", X: hs.Bin("+", hs.V("y"), hs.V("secret"))}}})},
		&hs.Func{Name: "norm", Pub: true, Params: []hs.Param{hs.P("p", hs.TNamed("Point"))}, Ret: hs.TInt, Body: hs.Blk(hs.Bin("+", hs.Mem(hs.V("p"), "x"), hs.CallN("helper", hs.Mem(hs.V("p"), "y"))))},
		hs.Fn("helper", hs.TInt, hs.Blk(hs.V("v")), hs.P("v", hs.TInt)))
	point := func() hs.Expr {
		return &hs.ObjLit{Fields: []hs.ObjField{{Name: "x", X: hs.I(1)}, {Name: "y", X: hs.I(2)}}}
	}
	switch form {
	case 0: // host does not require main: no main at all
		p.Funcs = append(p.Funcs, hs.Fn("helper", hs.TInt, hs.Blk(hs.I(1))))
		return &c03Case{Mods: map[string]*hs.Program{"main": p}, NoMain: true, Tags: tags}
	case 1: // host does not require main: main present
		p.Funcs = append(p.Funcs, mainFn(hs.Println(hs.S("hi"))))
		return &c03Case{Mods: map[string]*hs.Program{"main": p}, NoMain: true, Tags: tags}
	case 2: // minimal
		p.Funcs = append(p.Funcs, mainFn())
		return single(p, tags...)
	case 3: // main extracting a singleton
		p.Singletons = append(p.Singletons, hs.SingletonDecl{Name: "Cfg", T: hs.TObj(hs.Field{Name: "n", T: hs.TInt})})
		p.Funcs = append(p.Funcs, hs.Fn("main", nil, hs.Blk(nil, hs.Println(hs.Mem(hs.V("cfg"), "n"))), hs.Param{Name: "cfg", Single: "Cfg"}))
		return single(p, tags...)
	case 4: // main defined last, calls between functions in both directions
		p.Funcs = append(p.Funcs, hs.Fn("a", hs.TInt, hs.Blk(hs.CallN("b", hs.I(1)))), hs.Fn("b", hs.TInt, hs.Blk(hs.V("v")), hs.P("v", hs.TInt)), mainFn(hs.Println(hs.CallN("a"))))
		return single(p, tags...)
	case 5: // one name per import statement
		p.Imports = append(p.Imports, hs.Import{Names: []string{"mk"}, From: "lib"}, hs.Import{Names: []string{"type Point"}, From: "lib"})
		p.Funcs = append(p.Funcs, mainFn(hs.LetT("q", hs.TNamed("Point"), hs.CallN("mk", hs.I(1), hs.I(2))), use("q")))
	case 6: // several names in one statement
		p.Imports = append(p.Imports, hs.Import{Names: []string{"mk", "norm", "type Point", "origin"}, From: "lib"})
		p.Funcs = append(p.Funcs, mainFn(hs.LetT("q", hs.TNamed("Point"), hs.CallN("mk", hs.I(1), hs.I(2))), hs.LetT("n", hs.TInt, hs.Bin("+", hs.CallN("norm", hs.V("q")), hs.CallN("norm", hs.V("origin")))), use("n")))
	case 7: // imported type used structurally
		p.Imports = append(p.Imports, hs.Import{Names: []string{"norm"}, From: "lib"})
		p.Funcs = append(p.Funcs, mainFn(hs.LetT("n", hs.TInt, hs.CallN("norm", point())), use("n")))
	case 8: // imported type in parameter, result, alias, list
		p.Imports = append(p.Imports, hs.Import{Names: []string{"type Point", "mk"}, From: "lib"})
		p.Types = append(p.Types, &hs.TypeDef{Name: "Path", T: hs.TList(hs.TNamed("Point"))})
		p.Funcs = append(p.Funcs, mainFn(hs.LetT("ps", hs.TNamed("Path"), hs.List(hs.CallN("mk", hs.I(0), hs.I(1)), point())), hs.LetT("f", hs.TNamed("Point"), hs.CallN("first", hs.V("ps"))), use("f")),
			hs.Fn("first", hs.TNamed("Point"), hs.Blk(hs.Idx(hs.V("l"), hs.I(0))), hs.P("l", hs.TNamed("Path"))))
	case 9: // imported global read and assigned
		p.Imports = append(p.Imports, hs.Import{Names: []string{"origin"}, From: "lib"})
		p.Funcs = append(p.Funcs, mainFn(hs.LetT("ox", hs.TInt, hs.Mem(hs.V("origin"), "x")), hs.ES(hs.Asg("=", hs.Mem(hs.V("origin"), "y"), hs.I(4))), use("ox")))
	case 10: // a local shadows an imported function name; a local type shadows an imported one
		p.Imports = append(p.Imports, hs.Import{Names: []string{"mk", "type Point"}, From: "lib"})
		p.Funcs = append(p.Funcs, mainFn(hs.LetS("q", hs.CallN("mk", hs.I(1), hs.I(1))), use("q"), hs.LetS("mk", hs.I(3)), hs.LetT("m", hs.TInt, hs.V("mk")), use("m"),
			&hs.ExprStmt{X: &hs.BlockExpr{B: hs.Blk(nil, &hs.TypeDef{Name: "Point", T: hs.TStr}, hs.LetT("s", hs.TNamed("Point"), hs.S("p")), use("s"))}}))
	case 11: // second library imported by the first
		lib2 := libProg()
		lib2.Funcs = append(lib2.Funcs, &hs.Func{Name: "twice", Pub: true, Params: []hs.Param{hs.P("v", hs.TInt)}, Ret: hs.TInt, Body: hs.Blk(hs.Bin("*", hs.V("v"), hs.I(2)))})
		lib.Imports = append(lib.Imports, hs.Import{Names: []string{"twice"}, From: "lib2"})
		lib.Funcs = append(lib.Funcs, &hs.Func{Name: "quad", Pub: true, Params: []hs.Param{hs.P("v", hs.TInt)}, Ret: hs.TInt, Body: hs.Blk(hs.CallN("twice", hs.CallN("twice", hs.V("v"))))})
		p.Imports = append(p.Imports, hs.Import{Names: []string{"quad"}, From: "lib"}, hs.Import{Names: []string{"twice"}, From: "lib2"})
		p.Funcs = append(p.Funcs, mainFn(hs.LetT("n", hs.TInt, hs.Bin("+", hs.CallN("quad", hs.I(1)), hs.CallN("twice", hs.I(1)))), use("n")))
		return &c03Case{Mods: map[string]*hs.Program{"main": p, "lib": lib, "lib2": lib2}, Tags: tags}
	case 12: // imported function passed as a value and stored
		p.Imports = append(p.Imports, hs.Import{Names: []string{"norm", "type Point"}, From: "lib"})
		p.Funcs = append(p.Funcs, mainFn(hs.LetS("f", hs.V("norm")), hs.LetT("n", hs.TInt, hs.CallE(hs.V("f"), point())), use("n")))
	case 13: // template and trigger imports next to code imports
		p.Imports = append(p.Imports, hs.Import{Names: []string{"templ Lamp", "templ Sensor"}, From: "templates"}, hs.Import{Names: []string{"trigger boot"}, From: "triggers"}, hs.Import{Names: []string{"mk"}, From: "lib"})
		p.Funcs = append(p.Funcs, mainFn(hs.Println(hs.CallN("mk", hs.I(1), hs.I(2))), &hs.Trigger{Callback: "start", Kind: "at", Event: "boot"}), &hs.Func{Name: "start", Event: true, Body: hs.Blk(nil)})
	case 14: // pub items in the entry module
		p.Types = append(p.Types, &hs.TypeDef{Name: "Id", T: hs.TInt, Pub: true})
		p.Globals = append(p.Globals, &hs.Let{Name: "next", T: hs.TNamed("Id"), X: hs.I(1), Pub: true})
		p.Funcs = append(p.Funcs, mainFn(hs.ES(hs.Asg("+=", hs.V("next"), hs.I(1)))), &hs.Func{Name: "get", Pub: true, Ret: hs.TNamed("Id"), Body: hs.Blk(hs.V("next"))})
		return single(p, tags...)
	case 15: // type definitions in nested blocks, shadowing an outer type
		p.Types = append(p.Types, &hs.TypeDef{Name: "T", T: hs.TInt})
		p.Funcs = append(p.Funcs, mainFn(hs.LetT("a", hs.TNamed("T"), hs.I(1)), use("a"),
			&hs.ExprStmt{X: &hs.BlockExpr{B: hs.Blk(nil, &hs.TypeDef{Name: "T", T: hs.TStr}, hs.LetT("b", hs.TNamed("T"), hs.S("s")), use("b"))}},
			hs.LetT("c", hs.TNamed("T"), hs.I(2)), use("c")))
		return single(p, tags...)
	}
	return withLib(p, lib, tags...)
}

// ---------------------------------------------------------------- family: any

const (
	nAnySources = 4
	nAnySinks   = 9
)

func c03AnyCase(tier string, idx int) *c03Case {
	types := c03BranchTypes(tier)[1:]
	d := radix(idx, nAnySources, nAnySinks, len(types))
	src, sink, T := d[0], d[1], types[d[2]]
	if T.hasFn {
		return nil
	}
	tags := []string{fmt.Sprintf("source:%d", src), fmt.Sprintf("sink:%d", sink), "type:" + T.name}
	pre := []hs.Stmt{hs.LetS("text", hs.S("1")), hs.LetS("bag", &hs.AnyObjLit{})}
	// an expression of type any
	var a func() hs.Expr
	switch src {
	case 0:
		a = func() hs.Expr { return hs.MCall(hs.V("text"), "parse_json") }
	case 1:
		a = func() hs.Expr { return hs.MCall(hs.S("[]"), "parse_json") }
	case 2: // ?any through unwrap
		a = func() hs.Expr { return hs.MCall(hs.MCall(hs.V("bag"), "get", hs.S("k")), "unwrap") }
	case 3: // host function is not available: a user function cannot return any, use a nested call
		a = func() hs.Expr { return hs.MCall(hs.MCall(hs.V("text"), "to_lower"), "parse_json") }
	}
	p := &hs.Program{}
	var st []hs.Stmt
	switch sink {
	case 0: // annotated let
		st = append(pre, hs.LetT("v", T.t, a()), use("v"))
	case 1: // annotated let through an alias
		p.Types = append(p.Types, &hs.TypeDef{Name: "A", T: T.t})
		st = append(pre, hs.LetT("v", hs.TNamed("A"), a()), hs.LetT("w", T.t, hs.V("v")), use("w"))
	case 2: // cast in a let
		st = append(pre, hs.LetS("v", &hs.Cast{X: a(), T: T.t}), hs.LetT("w", T.t, hs.V("v")), use("w"))
	case 3: // cast as an argument
		st = append(pre, hs.ES(hs.CallN("take", &hs.Cast{X: a(), T: T.t})))
		p.Funcs = append(p.Funcs, hs.Fn("take", nil, hs.Blk(nil, use("q")), hs.P("q", T.t)))
	case 4: // cast as an operand
		st = append(pre, hs.LetT("b", hs.TBool, hs.Bin("==", &hs.Cast{X: a(), T: T.t}, T.val(0))), use("b"))
	case 5: // cast returned
		p.Funcs = append(p.Funcs, hs.Fn("get", T.t, hs.Blk(&hs.Cast{X: a(), T: T.t}, pre...)))
		st = []hs.Stmt{hs.LetS("r", hs.CallN("get")), use("r")}
	case 6: // cast inside a closure after a closure
		st = append(pre, hs.LetS("j", fnLit(nil, hs.Blk(nil))), use("j"), hs.LetS("k", fnLit(T.t, hs.Blk(&hs.Cast{X: a(), T: T.t}))), hs.LetT("r", T.t, hs.CallE(hs.V("k"))), use("r"))
	case 7: // annotated let inside a loop body
		st = append(pre, &hs.For{Var: "i", Iter: rng(1), Body: hs.Blk(nil, hs.LetT("v", T.t, a()), use("v"), use("i"))})
	case 8: // option of any kept as an option
		if src != 2 {
			return nil
		}
		st = append(pre, hs.LetT("o", hs.TOpt(T.t), hs.MCall(hs.V("bag"), "get", hs.S("k"))), use("o"))
	}
	p.Funcs = append([]*hs.Func{mainFn(st...)}, p.Funcs...)
	return single(p, tags...)
}

// ---------------------------------------------------------------- family: globals

const (
	nGlobalForms = 10
	nGlobalUses  = 4
)

func c03GlobalsCase(tier string, idx int) *c03Case {
	prims := c03Prims("quick")
	d := radix(idx, nGlobalForms, nGlobalUses, len(prims))
	form, use_, T := d[0], d[1], prims[d[2]]
	tags := []string{fmt.Sprintf("form:%d", form), fmt.Sprintf("use:%d", use_), "type:" + T.name}
	var x hs.Expr
	vt := T.t
	addOp := map[string]string{"int": "+", "float": "*", "bool": "&", "str": "+"}[T.name]
	switch form {
	case 0:
		x = T.val(0)
	case 1:
		x = hs.Bin(addOp, T.val(0), T.val(1))
	case 2:
		x = &hs.Group{X: hs.Bin(addOp, T.val(0), &hs.Group{X: T.val(1)})}
	case 3:
		x, vt = hs.List(T.val(0), T.val(1)), hs.TList(T.t)
	case 4:
		x, vt = &hs.ObjLit{Fields: []hs.ObjField{{Name: "v", X: T.val(0)}, {Name: "w", X: hs.List(T.val(1))}}}, hs.TObj(hs.Field{Name: "v", T: T.t}, hs.Field{Name: "w", T: hs.TList(T.t)})
	case 5:
		x, vt = hs.Un("?", T.val(0)), hs.TOpt(T.t)
	case 6:
		x, vt = hs.Bin("==", T.val(0), T.val(1)), hs.TBool
	case 7: // cast of a constant
		switch T.name {
		case "int":
			x, vt = &hs.Cast{X: T.val(0), T: hs.TFloat}, hs.TFloat
		case "float":
			x, vt = &hs.Cast{X: T.val(0), T: hs.TInt}, hs.TInt
		case "bool":
			x, vt = &hs.Cast{X: T.val(0), T: hs.TInt}, hs.TInt
		default:
			x = &hs.Cast{X: T.val(0), T: hs.TStr}
		}
	case 8: // prefix operator on a constant
		switch T.name {
		case "int", "float":
			x = hs.Un("-", T.val(0))
		case "bool":
			x = hs.Un("!", T.val(0))
		default:
			return nil
		}
	case 9: // block holding only a constant
		x = &hs.BlockExpr{B: hs.Blk(T.val(0))}
	}
	p := &hs.Program{}
	g := &hs.Let{Name: "g", X: x}
	switch use_ {
	case 0: // inferred, read
		p.Globals = append(p.Globals, g)
		p.Funcs = append(p.Funcs, mainFn(hs.LetT("y", vt, hs.V("g")), use("y")))
	case 1: // annotated, read in a closure
		g.T = vt
		p.Globals = append(p.Globals, g)
		p.Funcs = append(p.Funcs, mainFn(hs.LetS("k", fnLit(vt, hs.Blk(hs.V("g")))), hs.LetT("y", vt, hs.CallE(hs.V("k"))), use("y")))
	case 2: // pub, two globals, assigned from another function
		g.Pub = true
		p.Globals = append(p.Globals, g, &hs.Let{Name: "h", T: vt, X: x})
		p.Funcs = append(p.Funcs, mainFn(hs.ES(hs.CallN("set"))), hs.Fn("set", nil, hs.Blk(nil, hs.ES(hs.Asg("=", hs.V("g"), hs.V("h"))))))
	case 3: // shadowed by a local of another type
		p.Globals = append(p.Globals, g)
		p.Funcs = append(p.Funcs, mainFn(hs.LetT("y", vt, hs.V("g")), use("y"), hs.LetS("g", rng(1)), use("g")))
	}
	return single(p, tags...)
}

func init() {
	c03Families = append(c03Families,
		c03Family{Name: "impls", Count: func(string) int { return nImplStyles * len(c03ImplVariants) }, Gen: c03ImplsCase},
		c03Family{Name: "triggers", Count: func(string) int { return nTrigNames * nTrigPlaces * nTrigForms * len(c03TrigVariants) }, Gen: c03TriggersCase},
		c03Family{Name: "modules", Count: func(string) int { return nModuleForms }, Gen: c03ModulesCase},
		c03Family{Name: "any", Count: func(tier string) int { return nAnySources * nAnySinks * (len(c03BranchTypes(tier)) - 1) }, Gen: c03AnyCase},
		c03Family{Name: "globals", Count: func(string) int { return nGlobalForms * nGlobalUses * 4 }, Gen: c03GlobalsCase},
	)
}

// ---------------------------------------------------------------- family: members

type memberCase struct {
	recv tyd
	name string
}

var c03MemberMemo []memberCase

// every (receiver type, member) pair of the part of the builtin member tables reftype knows
func c03MemberCases() []memberCase {
	if c03MemberMemo != nil {
		return c03MemberMemo
	}
	prims := c03Prims("all")
	recvs := append(append([]tyd{}, prims...), tList(prims[0]), tList(prims[3]), tOpt(prims[0]), tOpt(tList(prims[3])), tObj1(prims[0]), tObj2(prims[0], prims[3]))
	for _, r := range recvs {
		var names []string
		for n := range reftype.Members(r.t) {
			names = append(names, n)
		}
		sort.Strings(names)
		for _, n := range names {
			c03MemberMemo = append(c03MemberMemo, memberCase{r, n})
		}
	}
	return c03MemberMemo
}

const nMemberForms = 3

func c03MembersCase(tier string, idx int) *c03Case {
	cases := c03MemberCases()
	d := radix(idx, nMemberForms, len(cases))
	form, mc := d[0], cases[d[1]]
	mt := reftype.Members(mc.recv.t)[mc.name]
	tags := []string{"recv:" + mc.recv.name, "member:" + mc.name, fmt.Sprintf("form:%d", form)}
	recv := func() hs.Expr { return hs.V("v") }
	pre := []hs.Stmt{hs.LetS("v", mc.recv.val(0))}
	if form == 1 { // receiver is a literal / temporary
		recv = func() hs.Expr { return &hs.Group{X: mc.recv.val(1)} }
	}
	var x hs.Expr
	res := mt
	if mt.K == hs.KFn {
		var args []hs.Expr
		for _, q := range mt.Params {
			a := litOfType(q.T)
			if a == nil {
				return nil
			}
			args = append(args, a)
		}
		x = hs.MCall(recv(), mc.name, args...)
		res = mt.Ret
		if res == nil {
			res = hs.TNull
		}
	} else {
		x = hs.Mem(recv(), mc.name)
	}
	// the any in results of parse_json / get needs an annotation
	ann := res
	switch {
	case res.K == hs.KAny:
		ann = hs.TInt
	case res.K == hs.KOpt && res.Elem.K == hs.KAny:
		ann = hs.TOpt(hs.TStr)
	}
	var st []hs.Stmt
	switch {
	case res.K == hs.KNull:
		st = append(pre, hs.ES(x))
	case form == 2: // inside a closure defined in a loop
		st = append(pre, &hs.For{Var: "i", Iter: rng(1), Body: hs.Blk(nil, hs.LetS("k", fnLit(ann, hs.Blk(nil, hs.LetT("r", ann, x), &hs.Return{X: hs.V("r")}))), hs.LetT("out", ann, hs.CallE(hs.V("k"))), use("out"), use("i"))})
	default:
		st = append(pre, hs.LetT("r", ann, x), use("r"))
	}
	return single(&hs.Program{Funcs: []*hs.Func{mainFn(st...)}}, tags...)
}

func init() {
	c03Families = append(c03Families, c03Family{Name: "members", Count: func(string) int { return nMemberForms * len(c03MemberCases()) }, Gen: c03MembersCase})
}
