package main

import (
	"fmt"
	"os"
	"strings"
)

// RUN is a debugging aid (not a property check): `HMS_PROG='fn main(){...}' hmsworker -check RUN
// -fd 2 -v` analyses the program text and runs it on both backends, printing the observations.
// Several programs can be separated by a line containing only "----".
func init() {
	register("RUN", func() *Check {
		progs := strings.Split(os.Getenv("HMS_PROG"), "\n----\n")
		return &Check{ID: "RUN", Scenarios: []Scenario{{
			Name:  "env-programs",
			Count: func(string) int { return len(progs) },
			Run: func(_ string, idx int, r *Result) {
				src := progs[idx]
				// "//// module <name>" lines split the text into several modules (default: main)
				mods := map[string]string{}
				cur := "main"
				for _, ln := range strings.SplitAfter(src, "\n") {
					if strings.HasPrefix(ln, "//// module ") {
						cur = strings.TrimSpace(strings.TrimPrefix(ln, "//// module "))
						continue
					}
					mods[cur] += ln
				}
				a := Analyze(mods, true)
				fmt.Fprintf(os.Stderr, "== %s\nanalysis: %s\n", src, a.Obs.String())
				for _, d := range a.Diags {
					fmt.Fprintf(os.Stderr, "   diag[%v]: %s\n", d.Level, d.Message)
				}
				if !a.Obs.Accepted() || a.Obs.Class == "HOST-PANIC" {
					return
				}
				fmt.Fprintf(os.Stderr, "tree: %s\n", RunTree(a, defaultOpts()).String())
				fmt.Fprintf(os.Stderr, "vm:   %s\n", RunVM(a, defaultOpts()).String())
			},
		}}}
	})
}
