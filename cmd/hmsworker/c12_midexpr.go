package main

import (
	"fmt"
)

// C12, a failing cast in the middle of an expression: the cast error is raised while operands of
// the surrounding expression are pending (earlier list elements, the left operand, earlier
// arguments) and is caught in the same function. The error is catchable and leaves nothing of
// the abandoned expression behind: the function returns its fallback and its caller, which has
// operands pending itself, computes with exactly that.

var c12MidShapes = []struct {
	name, expr string
	ok        int // value of the expression for a == 1
}{
	{"list-element-last", "[1, 2, a as int].len()", 3},
	{"list-element-first", "[a as int, 2].len()", 2},
	{"list-element-middle", "[7, a as int, 9].len()", 3},
	{"object-field", "(new { x: 1, y: a as int }).x", 1},
	{"infix-right-operand", "10 + (a as int)", 11},
	{"infix-left-operand", "(a as int) + 10", 11},
	{"call-argument-last", "add(1, a as int)", 2},
	{"call-argument-first", "add(a as int, 1)", 2},
	{"nested-infix-in-list", "[5, 10 + (a as int)].len()", 2},
	{"index", "[7, 8, 9][a as int]", 8},
	{"method-argument", "[1, 2].contains(a as int) as int", 1},
	{"in-a-callee-of-the-try", "add(3, convert(src))", 4},
}

var c12MidSources = []struct{ name, json string }{{"conforming", "1"}, {"string", `\"s\"`}, {"list", "[1]"}, {"null", "null"}}

func c12MidCount() int { return len(c12MidShapes) * len(c12MidSources) }

func c12MidRun(_ string, idx int, r *Result) {
	d := radix(idx, len(c12MidSources), len(c12MidShapes))
	src, sh := c12MidSources[d[0]], c12MidShapes[d[1]]
	text := "fn add(x: int, y: int) -> int { x + y }\nfn convert(s: str) -> int {\n    let v: any = s.parse_json();\n    v as int\n}\nfn f(src: str) -> int {\n    let a: any = src.parse_json();\n    let r = try { " + sh.expr + " } catch e { 0 - 1 };\n    r\n}\nfn main() {\n    println(100 + f(\"" + src.json + "\"));\n    println(f(\"" + src.json + "\") * 2 + f(\"" + src.json + "\"));\n    println(\"end\");\n}\n"
	v := -1
	if src.name == "conforming" {
		v = sh.ok
	}
	want := fmt.Sprintf("%d\n%d\nend\n", 100+v, 3*v)
	tags := []string{"mid-expression:" + sh.name, "source:" + src.name}
	r.Sample(text)
	a := Analyze(map[string]string{"main": text}, true)
	r.Trans(1)
	if a.Obs.Class == "HOST-PANIC" || !a.Obs.Accepted() {
		r.Fail("HARNESS:program rejected", tags, text, a.Obs.String())
		return
	}
	for _, b := range backendNames {
		o := runOn(b, a, r)
		r.Distinct(fmt.Sprintf("%s|%s|%s|%s", sh.name, src.name, b, o.Key()))
		r.Outcome(b + ":" + o.Class)
		t := append([]string{"backend:" + b}, tags...)
		if cc := crashClass(o); cc != "" {
			r.Fail(cc, t, text, o.String())
		} else if o.Class != "ok" {
			r.Fail("CAST:a caught cast error ends the program:"+o.Class+kindSuffix(o.Kind), t, text, o.String())
		} else if o.Out != want {
			r.Fail("CAST:a caught cast error leaves operands of the abandoned expression behind", t, text, fmt.Sprintf("expected %q got %q", want, o.Out))
		} else if o.Residue != "" {
			r.Fail("RESIDUE:"+o.Residue, t, text, "residue at normal exit: "+o.Residue)
		}
	}
}
