package main

import (
	"strings"
)

// C19, blocks that end in a block-like expression: every kind of block (then, else, last else of
// an else-if chain, function body, closure body, bare block, match arm, try, catch) holds zero or
// more statements followed by a tail that is itself an `if`, an else-if chain, a `match`, a `try`,
// a block or a plain expression. Printing must keep the statements and the nesting: `else { s; if
// c { a } else { b } }` is not `else if c { a } else { b }`.

var c19TailContainers = []struct{ name, pre, use string }{
	{"else", "", "let v = if sel > 5 { 0 } else { BODY };"},
	{"then", "", "let v = if sel < 5 { BODY } else { 0 };"},
	{"last-else-of-a-chain", "", "let v = if sel > 5 { 0 } else if sel > 4 { 1 } else { BODY };"},
	{"function-body", "fn f(sel: int) -> int { BODY }\n", "let v = f(sel);"},
	{"closure-body", "", "let c = fn(sel: int) -> int { BODY };\n    let v = c(sel);"},
	{"bare-block", "", "let v = { BODY };"},
	{"match-arm", "", "let v = match sel { 1 => { BODY }, _ => { BODY } };"},
	{"try-body", "", "let v = try { BODY } catch e { 0 };"},
	{"catch-body", "", "let v = try { throw(\"x\"); 0 } catch e { BODY };"},
	{"loop-body-statement", "", "let v = 0;\n    for i in 0..2 { v += { BODY }; }"},
}

var c19TailStmts = []struct{ name, stmts, x string }{
	{"no-statement", "", "sel"},
	{"print-before", "println(\"side\", sel); ", "sel"},
	{"let-used-by-the-tail", "let half = sel + 1; ", "half"},
	{"two-statements", "println(\"a\"); let half = sel * 2; println(\"b\", half); ", "half"},
}

var c19Tails = []struct{ name, text string }{
	{"if-else", "if X == 1 { 10 } else { 20 }"},
	{"else-if-chain", "if X == 1 { 10 } else if X == 2 { 20 } else { 30 }"},
	{"if-whose-else-ends-in-if", "if X == 1 { 10 } else { println(\"inner\"); if X == 2 { 20 } else { 30 } }"},
	{"match", "match X { 1 => 10, _ => 20 }"},
	{"try", "try { X * 2 } catch e2 { 0 }"},
	{"block", "{ X + 1 }"},
	{"plain", "X + 100"},
}

func c19TailCount() int { return len(c19TailContainers) * len(c19TailStmts) * len(c19Tails) * 2 }

func c19TailRun(idx int, r *Result) {
	d := radix(idx, 2, len(c19Tails), len(c19TailStmts), len(c19TailContainers))
	sel, tail, st, c := []string{"1", "2"}[d[0]], c19Tails[d[1]], c19TailStmts[d[2]], c19TailContainers[d[3]]
	body := st.stmts + strings.ReplaceAll(tail.text, "X", st.x)
	text := strings.ReplaceAll(c.pre, "BODY", body) + "fn main() {\n    let sel = " + sel + ";\n    " + strings.ReplaceAll(c.use, "BODY", body) + "\n    println(v);\n}\n"
	c19Oracle(text, []string{"container:" + c.name, "statements:" + st.name, "tail:" + tail.name}, r)
}
