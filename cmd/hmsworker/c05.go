package main

// C05 "Lexing, parsing and analysis are total".
//
// Families (all enumerated completely, each text in two roles: as the entry module and as the
// text a host returns for an imported module):
//   strings          every string of length <= 3 (quick) / <= 4 (thorough) over feAlphabet
//   token-sequences  every sequence of length <= 2 (quick) / <= 3 (thorough) over one lexeme per
//                    token kind, embedded in 27 syntactic contexts;
//                    sequences over the 30 most connective kinds one token longer
//   corpus-edits     for every .hms file of examples/ and tests/: every prefix at token
//                    granularity, every single-token deletion, duplication, swap with the
//                    neighbour (thorough: also replacement by each token kind); byte prefixes
//   nesting          nesting and size families up to depth/length 1000 (each first run in a
//                    guarded child process, see fe_guard.go)
//   import-graphs    every import graph over modules {main,a,b} incl. self imports (thorough:
//                    {main,a,b,c} without self imports)
// Oracle: homescript.Parse and homescript.Analyze return; no Go panic; no death; no hang.

import (
	"fmt"
	"os"
	"runtime/pprof"
	"sort"
	"strings"
	"sync/atomic"
	"syscall"
	"time"

	"hmsverif/internal/reflex"
)

// ---------------------------------------------------------------- watchdog

// The driver's idle watchdog needs 90 s to notice a wedged worker. A case of these families
// takes micro- to milliseconds of processor time; if the worker burns more than c05CaseLimit
// of PROCESSOR time (not wall-clock time: the machine may be loaded, and a case may be waiting
// for its child probes) inside one case it ends itself with a message the driver attributes
// to the announced case (WORKER-DEATH:fatal error: verif watchdog ...), so that an unknown
// spinning hang costs seconds instead of minutes.
const c05CaseLimit = 20 * time.Second

var c05CaseStart atomic.Int64 // processor time of the worker at the start of the case (ns), -1: idle

func selfCPU() time.Duration {
	var ru syscall.Rusage
	if syscall.Getrusage(syscall.RUSAGE_SELF, &ru) != nil {
		return 0
	}
	return time.Duration(ru.Utime.Nano() + ru.Stime.Nano())
}

var c05Watching atomic.Bool

func c05Watch() {
	if c05Watching.Swap(true) {
		return
	}
	go func() {
		for {
			time.Sleep(500 * time.Millisecond)
			if t := c05CaseStart.Load(); t > 0 && selfCPU()-time.Duration(t) > c05CaseLimit {
				fmt.Fprintf(os.Stderr, "fatal error: verif watchdog: case did not return within %s of processor time\n", c05CaseLimit)
				pprof.Lookup("goroutine").WriteTo(os.Stderr, 2)
				os.Exit(3)
			}
		}
	}()
}

// ---------------------------------------------------------------- oracle

const c05Importer = "import x from m;\nfn main() {}\n"

// c05Run pushes one module set through Parse (entry text) and Analyze and reports panics.
// role "entry": mods["main"] is the text under test; role "module": it is mods["m"].
func c05Run(mods map[string]string, underTest string, tags []string, cas string, guarded bool, r *Result) {
	c05Watch()
	c05CaseStart.Store(int64(selfCPU()) + 1)
	defer c05CaseStart.Store(-1)
	text := mods[underTest]

	if !guarded {
		if v := guardMods("analyze", mods); v.Fatal {
			r.Outcome("fatal")
			r.Distinct(v.Class)
			failCapped(r, v.Class, tags, cas, v.Detail)
			return
		}
	}
	r.Sample(cas)
	key := ""
	// Parse on the text under test (the analyzer parses imported modules itself)
	o := realParse(text, underTest)
	r.Trans(1)
	switch {
	case o.Panic != "":
		r.Outcome("parse:panic")
		key = "parse-panic:" + normMsg(o.Panic)
		failCapped(r, "HOST-PANIC:"+panicFunc(o.Site)+":"+normMsg(o.Panic), append([]string{"stage:parse"}, tags...), cas, "homescript.Parse panicked: "+o.Panic+"\n"+o.Site)
	case o.Hard != "":
		r.Outcome("parse:hard-error")
		key = "hard:" + normMsg(o.Hard)
	case len(o.Soft) > 0:
		r.Outcome("parse:soft-errors")
		key = "soft:" + normMsg(o.Soft[0])
	default:
		r.Outcome("parse:ok")
		key = "ok"
	}
	for _, must := range []bool{true, false} {
		a := Analyze(mods, must)
		r.Trans(1)
		if a.Obs.Class == "HOST-PANIC" {
			r.Outcome("analyze:panic")
			key += "|analyze-panic:" + normMsg(a.Obs.Msg)
			failCapped(r, "HOST-PANIC:"+panicFunc(a.Obs.PanicSite)+":"+normMsg(a.Obs.Msg), append([]string{"stage:analyze"}, tags...), cas, "homescript.Analyze panicked: "+a.Obs.Msg+"\n"+a.Obs.PanicSite)
			break
		}
		if must {
			var ds []string
			for _, d := range a.Obs.Errors {
				ds = append(ds, normMsg(d))
			}
			sort.Strings(ds)
			if len(ds) > 4 {
				ds = ds[:4]
			}
			key += "|" + strings.Join(ds, ";")
			if a.Obs.Accepted() {
				r.Outcome("analyze:accepted")
			} else {
				r.Outcome("analyze:rejected")
			}
		}
	}
	r.Distinct(key)
}

// c05Both runs text in both roles.
func c05Both(text string, role int, extraMods map[string]string, tags []string, guarded bool, r *Result) {
	mods := map[string]string{}
	for k, v := range extraMods {
		mods[k] = v
	}
	cas := showText(text)
	if role == 0 {
		mods["main"] = text
		c05Run(mods, "main", append([]string{"as:entry"}, tags...), cas, guarded, r)
		return
	}
	mods["main"] = c05Importer
	mods["m"] = text
	c05Run(mods, "m", append([]string{"as:imported-module"}, tags...), "module m = "+cas+" imported by "+showText(c05Importer), guarded, r)
}

// ---------------------------------------------------------------- token sequences

// c05Kinds: one representative lexeme per token kind.
var c05Kinds = func() []string {
	ks := append([]string{}, reflex.Operators...)
	ks = append(ks, "true", "false", "null", "none", "pub", "fn", "if", "else", "match", "for", "while", "loop", "break", "continue",
		"return", "import", "as", "from", "let", "in", "type", "try", "catch", "new", "spawn", "event", "impl", "with", "templ", "trigger", "_",
		`"s"`, "1", "1.5", "x",
		// further spellings of the identifier kind that are bound in every analysis: the entry
		// function, two host builtins with variadic parameters, a builtin type name
		"main", "print", "println", "int")
	return ks
}()

// c05Hot: the kinds most productions start or continue with; sequences over them are
// enumerated one token longer than over all kinds.
var c05Hot = []string{"x", "main", "print", "println", "int", "1", `"s"`, "true", "null", "(", ")", "[", "]", "{", "}", ".", ",", ":", ";",
	"=", "==", "-", "!", "?", "..", "as", "fn", "new", "spawn", "$"}

func c05HotLen(tier string) int {
	if tier == "thorough" {
		return 4
	}
	return 3
}

// c05HotRoles: the length-4 family (thorough) is run as entry module only.
func c05HotRoles(tier string) int {
	if tier == "thorough" {
		return 1
	}
	return 2
}

// c05HotSeq: the idx-th sequence over c05Hot of exactly length n
func c05HotSeq(n, idx int) []string {
	out := make([]string, n)
	for k := 0; k < n; k++ {
		out[k] = c05Hot[idx%len(c05Hot)]
		idx /= len(c05Hot)
	}
	return out
}

type c05Context struct{ name, pre, post string }

var c05Contexts = []c05Context{
	{"top-level", "", ""},
	{"fn-body", "fn main() { ", " }"},
	{"expression", "fn main() { let v = ", " ; }"},
	{"type", "fn main() { let v : ", " = 1 ; }"},
	{"import-list", "import { ", " } from m ;"},
	{"impl-block", "impl T for $S { ", " }"},
	{"call-arguments", "fn main() { f ( ", " ) ; }"},
	{"match-arms", "fn main() { match v { ", " } }"},
	{"singleton-type", "$S = ", " ;"},
	{"parameters", "fn main ( ", " ) { }"},
	{"global-initialiser", "let g = ", " ;\nfn main() { }"},
	{"return-type", "fn main() -> ", " { }"},
	{"after-function", "fn main() { } ", ""},
	{"annotation", "#[ ", " ] fn main() { }"},
	{"trigger-statement", "fn f() { }\nfn main() { trigger f on ", " ; }"},
	{"object-literal-field", "fn main() { let v = new { a : ", " } ; }"},
	{"type-definition", "type T = ", " ;\nfn main() { }"},
	{"condition", "fn main() { if ", " { } }"},
	{"for-iterable", "fn main() { for i in ", " { } }"},
	{"impl-head", "impl ", " { }"},
	{"body-x-is-int", "fn main() { let x = 1 ; ", " }"},
	{"body-x-is-function", "fn x ( ) { }\nfn main() { ", " }"},
	{"body-x-is-list", "fn main() { let x = [ 1 ] ; ", " }"},
	{"body-x-is-object", "fn main() { let x = new { x : 1 } ; ", " }"},
	{"body-x-is-closure", "fn main() { let x = fn ( x : int ) -> int { x } ; ", " }"},
	{"body-in-loop", "fn main() { loop { ", " } }"},
	{"global-x-is-function", "fn x ( ) { }\nlet g = ", " ;\nfn main() { }"},
}

func c05SeqCount(maxLen int) int {
	n, p := 0, 1
	for l := 0; l <= maxLen; l++ {
		n += p
		p *= len(c05Kinds)
	}
	return n
}

func c05Seq(idx int) []string {
	p := 1
	for l := 0; ; l++ {
		if idx < p {
			out := make([]string, l)
			for k := 0; k < l; k++ {
				out[k] = c05Kinds[idx%len(c05Kinds)]
				idx /= len(c05Kinds)
			}
			return out
		}
		idx -= p
		p *= len(c05Kinds)
	}
}

func c05SeqLen(tier string) int {
	if tier == "thorough" {
		return 3
	}
	return 2
}

// ---------------------------------------------------------------- corpus edits

type c05Edit struct {
	file, tok int
	kind      int // 0 prefix, 1 delete, 2 duplicate, 3 swap, 4+k replace by kind k
}

var (
	c05CorpusToks [][]reflex.Tok
	c05CorpusMods map[string]string
	c05TokIndex   [][2]int // (file, token) flat
	c05ByteIndex  [][2]int // (file, byte length) flat
)

func c05InitCorpus() {
	if c05CorpusMods != nil {
		return
	}
	c05CorpusMods = map[string]string{}
	for fi, f := range corpus() {
		name := f.Name[strings.LastIndex(f.Name, "/")+1:]
		c05CorpusMods[strings.TrimSuffix(name, ".hms")] = f.Text
		res := reflex.Lex(f.Text, f.Name)
		c05CorpusToks = append(c05CorpusToks, res.Toks)
		for t := range res.Toks {
			c05TokIndex = append(c05TokIndex, [2]int{fi, t})
		}
		for b := 0; b < len(f.Text); b++ {
			c05ByteIndex = append(c05ByteIndex, [2]int{fi, b})
		}
	}
}

const c05BasicEdits = 7

func c05EditKinds(tier string) int {
	if tier == "thorough" {
		return c05BasicEdits + len(c05Kinds)
	}
	return c05BasicEdits
}

// c05Apply builds the edited text; ok=false if the edit does not exist at that token.
func c05Apply(e c05Edit) (string, string, bool) {
	f := corpus()[e.file]
	toks := c05CorpusToks[e.file]
	rs := []rune(f.Text)
	t := toks[e.tok]
	lex := func(t reflex.Tok) string {
		if t.Kind == "EOF" {
			return ""
		}
		return string(rs[t.Start.Idx : t.End.Idx+1])
	}
	before := string(rs[:t.Start.Idx])
	after := ""
	if t.Kind != "EOF" {
		after = string(rs[t.End.Idx+1:])
	}
	switch {
	case e.kind == 0:
		return before, "prefix", true
	case t.Kind == "EOF":
		return "", "", false
	case e.kind == 1:
		return before + after, "delete", true
	case e.kind == 2:
		return before + lex(t) + " " + lex(t) + after, "duplicate", true
	case e.kind == 3:
		if e.tok+1 >= len(toks) || toks[e.tok+1].Kind == "EOF" {
			return "", "", false
		}
		n := toks[e.tok+1]
		gap := string(rs[t.End.Idx+1 : n.Start.Idx])
		if gap == "" {
			gap = " "
		}
		return before + lex(n) + gap + lex(t) + string(rs[n.End.Idx+1:]), "swap", true
	case e.kind == 4:
		// a character no token starts with, directly behind the token: the lexer reports an
		// error in the middle of whatever the parser is reading
		return before + lex(t) + "`" + after, "illegal-char-after", true
	case e.kind == 5:
		// a lone quote: an unterminated (or re-paired) string literal from here on
		return before + lex(t) + "\"" + after, "quote-after", true
	case e.kind == 6:
		return before + lex(t) + " 0x " + after, "malformed-number-after", true
	default:
		return before + " " + c05Kinds[e.kind-c05BasicEdits] + " " + after, "replace", true
	}
}

// ---------------------------------------------------------------- nesting and size families

type c05Family struct {
	name string
	gen  func(n int) string
}

func rep(s string, n int) string { return strings.Repeat(s, n) }

func inMain(body string) string { return "fn main() { " + body + " }" }

var c05Families = []c05Family{
	{"parens", func(n int) string { return inMain("let v = " + rep("(", n) + "1" + rep(")", n) + ";") }},
	{"parens-unclosed", func(n int) string { return inMain("let v = " + rep("(", n) + "1;") }},
	{"lists", func(n int) string { return inMain("let v = " + rep("[", n) + "1" + rep("]", n) + ";") }},
	{"lists-unclosed", func(n int) string { return inMain("let v = " + rep("[", n)) }},
	{"blocks", func(n int) string { return inMain(rep("{ ", n) + "1" + rep(" }", n)) }},
	{"blocks-unclosed", func(n int) string { return inMain(rep("{ ", n)) }},
	{"prefix-minus", func(n int) string { return inMain("let v = " + rep("-", n) + "1;") }},
	{"prefix-not", func(n int) string { return inMain("let v = " + rep("!", n) + "true;") }},
	{"prefix-some", func(n int) string { return inMain("let v = " + rep("?", n) + "1;") }},
	{"if-nested", func(n int) string { return inMain(rep("if true { ", n) + "1" + rep(" }", n)) }},
	{"else-if-chain", func(n int) string { return inMain("if true { 1 }" + rep(" else if true { 1 }", n) + " else { 1 }") }},
	{"closures", func(n int) string { return inMain("let v = " + rep("fn() { ", n) + "1" + rep(" }", n) + ";") }},
	{"member-chain", func(n int) string { return inMain("let v = a" + rep(".b", n) + ";") }},
	{"call-chain", func(n int) string { return inMain("a" + rep("()", n) + ";") }},
	{"index-chain", func(n int) string { return inMain("let v = a" + rep("[0]", n) + ";") }},
	{"call-nested", func(n int) string { return inMain(rep("f(", n) + "1" + rep(")", n) + ";") }},
	{"power-right-nested", func(n int) string { return inMain("let v = 1" + rep(" ** 1", n) + ";") }},
	{"plus-left-nested", func(n int) string { return inMain("let v = 1" + rep(" + 1", n) + ";") }},
	{"assign-chain", func(n int) string { return inMain("let a = 1; a" + rep(" = a", n) + ";") }},
	{"cast-chain", func(n int) string { return inMain("let v = 1" + rep(" as int", n) + ";") }},
	{"range-chain", func(n int) string { return inMain("let v = 1" + rep("..1", n) + ";") }},
	{"list-types", func(n int) string { return inMain("let v: " + rep("[", n) + "int" + rep("]", n) + " = 1;") }},
	{"option-types", func(n int) string { return inMain("let v: " + rep("?", n) + "int = 1;") }},
	{"object-types", func(n int) string { return "type T = " + rep("{ a: ", n) + "int" + rep(" }", n) + ";\nfn main() {}" }},
	{"fn-types", func(n int) string { return "type T = " + rep("fn(a: ", n) + "int" + rep(")", n) + ";\nfn main() {}" }},
	{"object-literals", func(n int) string { return inMain("let v = " + rep("new { a: ", n) + "1" + rep(" }", n) + ";") }},
	{"match-nested", func(n int) string { return inMain(rep("match 1 { _ => ", n) + "1" + rep(" }", n)) }},
	{"try-nested", func(n int) string { return inMain(rep("try { ", n) + "1" + rep(" } catch e { 1 }", n)) }},
	{"loop-nested", func(n int) string { return inMain(rep("loop { ", n) + "break;" + rep(" }", n)) }},
	{"while-nested", func(n int) string { return inMain(rep("while true { ", n) + rep(" }", n)) }},
	{"for-nested", func(n int) string { return inMain(rep("for i in 0..1 { ", n) + rep(" }", n)) }},
	{"string-escapes", func(n int) string { return inMain("let v = \"" + rep(`\\`, n) + "\";") }},
	{"block-comment-stars", func(n int) string { return "/*" + rep("*", n) + "/" + rep("/*", n) + "*/\nfn main() {}" }},
	// size families
	{"long-statements", func(n int) string { return inMain(rep("let v = 1; ", n)) }},
	{"long-list", func(n int) string { return inMain("let v = [" + rep("1, ", n) + "];") }},
	{"long-arguments", func(n int) string { return inMain("f(" + rep("1, ", n) + ");") }},
	{"long-object-literal", func(n int) string {
		var b strings.Builder
		for i := 0; i < n; i++ {
			fmt.Fprintf(&b, "k%d: 1, ", i)
		}
		return inMain("let v = new { " + b.String() + "};")
	}},
	{"long-parameters", func(n int) string {
		var b strings.Builder
		for i := 0; i < n; i++ {
			fmt.Fprintf(&b, "p%d: int, ", i)
		}
		return "fn main(" + b.String() + ") {}"
	}},
	{"many-functions", func(n int) string {
		var b strings.Builder
		for i := 0; i < n; i++ {
			fmt.Fprintf(&b, "fn f%d() { f%d(); }\n", i, (i+1)%n)
		}
		return b.String() + "fn main() {}"
	}},
	{"many-globals", func(n int) string {
		var b strings.Builder
		for i := 0; i < n; i++ {
			fmt.Fprintf(&b, "let g%d = %d;\n", i, i)
		}
		return b.String() + "fn main() {}"
	}},
	{"many-same-functions", func(n int) string { return rep("fn f() {}\n", n) + "fn main() {}" }},
	{"many-imports", func(n int) string { return rep("import x from m;\n", n) + "fn main() {}" }},
	{"long-identifier", func(n int) string { return inMain("let " + rep("a", 64*n) + " = 1;") }},
	{"long-number", func(n int) string { return inMain("let v = " + rep("9", 64*n) + ";") }},
	{"long-string", func(n int) string { return inMain("let v = \"" + rep("é", 32*n) + "\";") }},
	{"long-line-comment", func(n int) string { return "//" + rep("/", 64*n) + "\nfn main() {}" }},
}

func c05Depths(tier string) []int {
	if tier == "thorough" {
		return []int{1, 2, 3, 4, 5, 6, 7, 8, 9, 10, 20, 50, 100, 200, 500, 1000}
	}
	return []int{1, 2, 3, 10, 100, 1000}
}

// ---------------------------------------------------------------- import graphs

// c05Graph decodes idx into the module texts of an import graph: bit (i*n+j) set = module i
// imports from module j.
func c05Graph(names []string, self bool, idx int) (map[string]string, string) {
	n := len(names)
	mods := map[string]string{}
	var edges []string
	bit := 0
	for i := 0; i < n; i++ {
		var b strings.Builder
		for j := 0; j < n; j++ {
			if i == j && !self {
				continue
			}
			if idx>>bit&1 == 1 {
				fmt.Fprintf(&b, "import f_%s from %s;\n", names[j], names[j])
				edges = append(edges, names[i]+"->"+names[j])
			}
			bit++
		}
		fmt.Fprintf(&b, "pub fn f_%s() {}\n", names[i])
		if names[i] == "main" {
			b.WriteString("fn main() {}\n")
		}
		mods[names[i]] = b.String()
	}
	return mods, strings.Join(edges, " ")
}

func c05GraphSpec(tier string) ([]string, bool, int) {
	if tier == "thorough" {
		return []string{"main", "a", "b", "c"}, false, 1 << 12
	}
	return []string{"main", "a", "b"}, true, 1 << 9
}

// graphShape classifies an import graph for the failure tags.
func c05GraphShape(edges string) string {
	adj := map[string][]string{}
	for _, e := range strings.Fields(edges) {
		p := strings.Split(e, "->")
		adj[p[0]] = append(adj[p[0]], p[1])
	}
	// reachable from main
	seen := map[string]bool{"main": true}
	stack := []string{"main"}
	for len(stack) > 0 {
		x := stack[len(stack)-1]
		stack = stack[:len(stack)-1]
		for _, y := range adj[x] {
			if !seen[y] {
				seen[y] = true
				stack = append(stack, y)
			}
		}
	}
	onCycle := func(start string) bool {
		vis := map[string]bool{}
		st := append([]string{}, adj[start]...)
		for len(st) > 0 {
			x := st[len(st)-1]
			st = st[:len(st)-1]
			if x == start {
				return true
			}
			if vis[x] {
				continue
			}
			vis[x] = true
			st = append(st, adj[x]...)
		}
		return false
	}
	through, notThrough := onCycle("main"), false
	for m := range seen {
		if m != "main" && onCycle(m) {
			// is there a cycle through m that avoids main? remove main and test again
			saved := adj["main"]
			delete(adj, "main")
			if onCycle(m) {
				notThrough = true
			}
			adj["main"] = saved
		}
	}
	switch {
	case notThrough && through:
		return "graph:cycles-through-and-not-through-entry"
	case notThrough:
		return "graph:cycle-not-through-entry"
	case through:
		return "graph:cycle-through-entry"
	}
	return "graph:acyclic"
}

// ---------------------------------------------------------------- registration

func init() {
	register("C05", func() *Check {
		feTuneRuntime()
		c05InitCorpus()
		nk := len(c05Kinds)
		_ = nk
		return &Check{ID: "C05", Scenarios: []Scenario{
			{Name: "hot-token-sequences", Count: func(tier string) int {
				return c05HotRoles(tier) * len(c05Contexts) * ipow(len(c05Hot), c05HotLen(tier))
			}, Run: func(tier string, idx int, r *Result) {
				n := c05HotLen(tier)
				d := radix(idx, len(c05Contexts), ipow(len(c05Hot), n), c05HotRoles(tier))
				ctx := c05Contexts[d[0]]
				text := ctx.pre + strings.Join(c05HotSeq(n, d[1]), " ") + ctx.post
				c05Both(text, d[2], nil, []string{"family:token-sequences", "context:" + ctx.name}, false, r)
			}},
			{Name: "corpus-edits", Count: func(tier string) int { return 2 * len(c05TokIndex) * c05EditKinds(tier) }, Run: func(tier string, idx int, r *Result) {
				d := radix(idx, c05EditKinds(tier), len(c05TokIndex), 2)
				ft := c05TokIndex[d[1]]
				text, what, ok := c05Apply(c05Edit{file: ft[0], tok: ft[1], kind: d[0]})
				if !ok {
					r.Note("inapplicable", 1)
					return
				}
				c05Both(text, d[2], c05CorpusMods, []string{"family:corpus-edits", "edit:" + what}, false, r)
			}},
			{Name: "corpus-byte-prefixes", Count: func(string) int { return 2 * len(c05ByteIndex) }, Run: func(tier string, idx int, r *Result) {
				fb := c05ByteIndex[idx%len(c05ByteIndex)]
				c05Both(corpus()[fb[0]].Text[:fb[1]], idx/len(c05ByteIndex), c05CorpusMods, []string{"family:corpus-edits", "edit:byte-prefix"}, false, r)
			}},
			{Name: "nesting", Count: func(tier string) int { return 2 * len(c05Families) * len(c05Depths(tier)) }, Run: func(tier string, idx int, r *Result) {
				d := radix(idx, len(c05Depths(tier)), len(c05Families), 2)
				d = []int{d[2], d[0], d[1]}
				fam, depth := c05Families[d[2]], c05Depths(tier)[d[1]]
				text := fam.gen(depth)
				tags := []string{"family:nesting", "nest:" + fam.name}
				mods := map[string]string{"main": text}
				role := "entry"
				if d[0] == 1 {
					mods = map[string]string{"main": c05Importer, "m": text}
					role = "imported-module"
				}
				cas := fmt.Sprintf("nesting family %s, depth %d, as %s: %s", fam.name, depth, role, feFirstN(text, 160))
				if v := guardRun("analyze", mods, probeTimeoutBig); v.Fatal {
					r.Outcome("fatal")
					r.Distinct(v.Class)
					failCapped(r, v.Class, append([]string{"as:" + role, fmt.Sprintf("depth:%d", depth)}, tags...), cas, v.Detail)
					return
				}
				under := "main"
				if d[0] == 1 {
					under = "m"
				}
				c05Run(mods, under, append([]string{"as:" + role, fmt.Sprintf("depth:%d", depth)}, tags...), cas, true, r)
			}},
			{Name: "import-graphs", Count: func(tier string) int { _, _, n := c05GraphSpec(tier); return n }, Run: func(tier string, idx int, r *Result) {
				names, self, _ := c05GraphSpec(tier)
				mods, edges := c05Graph(names, self, idx)
				shape := c05GraphShape(edges)
				var ms []string
				for _, n := range names {
					ms = append(ms, fmt.Sprintf("module %s = %q", n, mods[n]))
				}
				r.Outcome(shape)
				c05Run(mods, "main", []string{"family:import-graphs", shape}, "import graph {"+edges+"}: "+strings.Join(ms, "; "), false, r)
			}},
			{Name: "declarations-with-invalid-parameter-lists", Count: func(string) int { return c05DeclCount() }, Run: func(_ string, idx int, r *Result) { c05DeclRun(idx, r) }},
			{Name: "expressions-in-contexts", Count: func(string) int { return c05CtxCount() }, Run: func(_ string, idx int, r *Result) { c05CtxRun(idx, r) }},
			{Name: "imports-and-uses", Count: func(string) int { return c05ImportCount() }, Run: func(_ string, idx int, r *Result) { c05ImportRun(idx, r) }},
			// last: the two largest spaces; in the thorough tier they may use up the remaining budget
			{Name: "strings", Count: func(tier string) int { return 2 * feStringsCount(feLen(tier)) }, Run: func(tier string, idx int, r *Result) {
				n := feStringsCount(feLen(tier))
				c05Both(feString(idx%n), idx/n, nil, []string{"family:strings"}, false, r)
			}},
			{Name: "token-sequences", Count: func(tier string) int { return 2 * len(c05Contexts) * c05SeqCount(c05SeqLen(tier)) }, Run: func(tier string, idx int, r *Result) {
				d := radix(idx, len(c05Contexts), c05SeqCount(c05SeqLen(tier)), 2)
				ctx := c05Contexts[d[0]]
				text := ctx.pre + strings.Join(c05Seq(d[1]), " ") + ctx.post
				r.Sample(text)
				c05Both(text, d[2], nil, []string{"family:token-sequences", "context:" + ctx.name}, false, r)
			}},
		}}
	})
}
