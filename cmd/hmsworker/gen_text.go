package main

import (
	"hmsverif/internal/hs"
)

// S15 text with characters that mean something to a formatter: percent signs, format verbs,
// braces, backslashes, quotes, line breaks, non-ASCII. The text goes through every way a program
// hands text to the host: printed, thrown and left uncaught, thrown and caught (`e.message`),
// as the message of a failed assertion, concatenated, as an object key. What comes out is the
// text that was written.

var textSamples = []struct{ name, text string }{
	{"percent", "load is 100% done"},
	{"double-percent", "50%% off"},
	{"format-verbs", "%s and %d and %v"},
	{"verb-at-the-end", "progress: 5%"},
	{"missing-marker", "%!s(MISSING)"},
	{"braces", "{0} {} {name}"},
	{"backslash", "a\\b\\n"},
	{"quotes", "say \"hi\" 'there'"},
	{"line-break", "first\nsecond"},
	{"tab-and-return", "a\tb\rc"},
	{"non-ascii", "größe → 十 €"},
	{"empty", ""},
}

var textUses = []string{"println", "print-twice", "throw-uncaught", "throw-caught", "throw-in-callee-caught-by-caller", "concatenated", "length", "any-object-key", "equality", "thrown-from-a-spawnless-nested-try"}

func textCount() int { return len(textSamples) * len(textUses) }

func textGen(idx int) (progCase, bool) {
	d := radix(idx, len(textUses), len(textSamples))
	use, ts := textUses[d[0]], textSamples[d[1]]
	t := func() hs.Expr { return hs.S(ts.text) }
	prog := &hs.Program{}
	var body []hs.Stmt
	switch use {
	case "println":
		body = []hs.Stmt{hs.Println(t()), hs.Println(hs.S("<"), t(), hs.S(">"))}
	case "print-twice":
		body = []hs.Stmt{hs.PrintS(t()), hs.PrintS(t()), hs.Println(hs.S("|"))}
	case "throw-uncaught":
		body = []hs.Stmt{hs.Println(hs.S("before")), hs.ES(hs.CallN("throw", t())), hs.Println(hs.S("unreachable"))}
	case "throw-caught":
		body = []hs.Stmt{hs.ES(&hs.Try{Body: hs.Blk(nil, hs.ES(hs.CallN("throw", t()))), Var: "e", Catch: hs.Blk(nil, hs.Println(hs.S("caught:"), hs.Mem(hs.V("e"), "message")), hs.Println(hs.Bin("==", hs.Mem(hs.V("e"), "message"), t())))})}
	case "throw-in-callee-caught-by-caller":
		prog.Funcs = append(prog.Funcs, hs.Fn("fail", hs.TInt, hs.Blk(hs.I(1), hs.ES(hs.CallN("throw", hs.Bin("+", hs.V("msg"), hs.S("!"))))), hs.P("msg", hs.TStr)))
		body = []hs.Stmt{hs.ES(&hs.Try{Body: hs.Blk(nil, hs.Println(hs.CallN("fail", t()))), Var: "e", Catch: hs.Blk(nil, hs.Println(hs.S("caught:"), hs.Mem(hs.V("e"), "message")))}), hs.ES(hs.CallN("fail", t()))}
	case "concatenated":
		body = []hs.Stmt{hs.LetS("s", hs.Bin("+", hs.Bin("+", t(), hs.S("|")), t())), hs.Println(hs.V("s")), hs.ES(hs.Asg("+=", hs.V("s"), t())), hs.Println(hs.V("s"))}
	case "length":
		body = []hs.Stmt{hs.Println(hs.MCall(t(), "len"), hs.MCall(hs.Bin("+", t(), t()), "len"))}
	case "any-object-key":
		body = []hs.Stmt{hs.LetS("o", &hs.AnyObjLit{}), hs.ES(hs.MCall(hs.V("o"), "set", t(), hs.I(1))), hs.Println(hs.MCall(hs.V("o"), "keys")), hs.Println(hs.MCall(hs.MCall(hs.V("o"), "keys"), "len"))}
	case "equality":
		body = []hs.Stmt{hs.LetS("a", t()), hs.LetS("b", hs.Bin("+", t(), hs.S(""))), hs.Println(hs.Bin("==", hs.V("a"), hs.V("b")), hs.Bin("!=", hs.V("a"), hs.Bin("+", hs.V("b"), hs.S("x"))))}
	case "thrown-from-a-spawnless-nested-try":
		inner := &hs.Try{Body: hs.Blk(nil, hs.ES(hs.CallN("throw", t()))), Var: "e", Catch: hs.Blk(nil, hs.ES(hs.CallN("throw", hs.Bin("+", hs.S("again: "), hs.Mem(hs.V("e"), "message")))))}
		body = []hs.Stmt{hs.ES(inner)}
	}
	body = append(body, hs.Println(hs.S("end")))
	prog.Funcs = append(prog.Funcs, hs.Fn("main", nil, hs.Blk(nil, body...)))
	return mkCase(prog, "text:"+ts.name, "use:"+use), true
}

func init() {
	semanticFamilies = append(semanticFamilies, progFamily{Name: "S15-text-with-special-characters", Count: func(string) int { return textCount() }, Gen: func(_ string, idx int) (progCase, bool) { return textGen(idx) }})
}
