package main

// Host side of C03: one description of what the host offers (templates, triggers, host
// functions) that is handed to reftype as data and to the real analyzer as a HostProvider.

import (
	"fmt"
	"runtime/debug"
	"sort"

	hms "github.com/smarthome-go/homescript/v3/homescript"
	"github.com/smarthome-go/homescript/v3/homescript/analyzer"
	"github.com/smarthome-go/homescript/v3/homescript/analyzer/ast"
	"github.com/smarthome-go/homescript/v3/homescript/diagnostic"
	herrors "github.com/smarthome-go/homescript/v3/homescript/errors"
	pAst "github.com/smarthome-go/homescript/v3/homescript/parser/ast"
	"github.com/smarthome-go/homescript/v3/homescript/vsched"

	"hmsverif/internal/hs"
	"hmsverif/internal/reftype"
)

// c03Spec is the host of every C03 program.
var c03Spec = &reftype.Host{
	VarArgs: map[string]*hs.Type{"print": hs.TNull, "println": hs.TNull},
	Funcs: map[string]*hs.Type{
		"assert": {K: hs.KFn, Params: []hs.Field{{Name: "t", T: hs.TBool}}, Ret: hs.TNull},
	},
	Templates: map[string]map[string]*reftype.Template{
		"templates": {
			// capabilities that exclude each other, no defaults
			"Lamp": {
				Methods: map[string]reftype.TemplateMethod{
					"dim":      {Params: []hs.Field{{Name: "percent", T: hs.TInt}}, Ret: hs.TBool},
					"set_temp": {Params: []hs.Field{{Name: "celsius", T: hs.TFloat}}},
					"label":    {Ret: hs.TStr},
				},
				Capabilities: map[string]reftype.Capability{
					"light":       {Requires: []string{"dim"}, Conflicts: []string{"temperature"}},
					"temperature": {Requires: []string{"set_temp"}, Conflicts: []string{"light"}},
					"named":       {Requires: []string{"label"}},
				},
			},
			// one default capability, two parameters, a list parameter
			"Sensor": {
				Methods: map[string]reftype.TemplateMethod{
					"read":   {Params: []hs.Field{{Name: "channel", T: hs.TInt}, {Name: "unit", T: hs.TStr}}, Ret: hs.TFloat},
					"record": {Params: []hs.Field{{Name: "values", T: hs.TList(hs.TInt)}}},
				},
				Capabilities: map[string]reftype.Capability{
					"base":    {Requires: []string{"read"}},
					"logging": {Requires: []string{"record"}},
				},
				Default: []string{"base"},
			},
			// methods that have to carry a modifier
			"Device": {
				Methods: map[string]reftype.TemplateMethod{
					"status":    {Ret: hs.TStr, Mod: "pub"},
					"on_change": {Params: []hs.Field{{Name: "value", T: hs.TInt}}, Mod: "event"},
					"reset":     {},
				},
				Capabilities: map[string]reftype.Capability{
					"base":      {Requires: []string{"status", "on_change"}},
					"resetting": {Requires: []string{"reset"}},
				},
				Default: []string{"base"},
			},
		},
	},
	Triggers: map[string]map[string]*reftype.Trigger{
		"triggers": {
			"minute": {Args: []hs.Field{{Name: "minutes", T: hs.TInt}}, Callback: []hs.Field{{Name: "elapsed", T: hs.TInt}}},
			"message": {Args: []hs.Field{{Name: "topic", T: hs.TStr}, {Name: "qos", T: hs.TInt}},
				Callback: []hs.Field{{Name: "topic", T: hs.TStr}, {Name: "payload", T: hs.TStr}}},
			"boot": {},
		},
	},
}

func astType(t *hs.Type, sp herrors.Span) ast.Type {
	if t == nil {
		return ast.NewNullType(sp)
	}
	switch t.K {
	case hs.KInt:
		return ast.NewIntType(sp)
	case hs.KFloat:
		return ast.NewFloatType(sp)
	case hs.KBool:
		return ast.NewBoolType(sp)
	case hs.KStr:
		return ast.NewStringType(sp)
	case hs.KNull:
		return ast.NewNullType(sp)
	case hs.KRange:
		return ast.NewRangeType(sp)
	case hs.KAny:
		return ast.NewAnyType(sp)
	case hs.KAnyObj:
		return ast.NewAnyObjectType(sp)
	case hs.KList:
		return ast.NewListType(astType(t.Elem, sp), sp)
	case hs.KOpt:
		return ast.NewOptionType(astType(t.Elem, sp), sp)
	case hs.KObj:
		var fs []ast.ObjectTypeField
		for _, f := range t.Fields {
			fs = append(fs, ast.NewObjectTypeField(pAst.NewSpannedIdent(f.Name, sp), astType(f.T, sp), sp))
		}
		return ast.NewObjectType(fs, sp)
	case hs.KFn:
		return astFn(t.Params, t.Ret, sp)
	}
	panic("astType: unsupported kind")
}

func astFn(params []hs.Field, ret *hs.Type, sp herrors.Span) ast.FunctionType {
	ps := make([]ast.FunctionTypeParam, 0, len(params))
	for _, p := range params {
		ps = append(ps, ast.NewFunctionTypeParam(pAst.NewSpannedIdent(p.Name, sp), astType(p.T, sp), nil))
	}
	return ast.NewFunctionType(ast.NewNormalFunctionTypeParamKind(ps), sp, astType(ret, sp), sp).(ast.FunctionType)
}

type c03Host struct{ mods map[string]string }

func (c03Host) GetKnownObjectTypeFieldAnnotations() []string { return nil }
func (c03Host) PostValidationHook(map[string]ast.AnalyzedProgram, string, *analyzer.Analyzer, bool) []diagnostic.Diagnostic {
	return nil
}
func (h c03Host) ResolveCodeModule(n string) (string, bool, error) {
	c, ok := h.mods[n]
	if n == "main" {
		return "", false, nil
	}
	return c, ok, nil
}

func (c03Host) GetBuiltinImport(m, v string, sp herrors.Span, k pAst.IMPORT_KIND) (analyzer.BuiltinImport, bool, bool) {
	tm, okT := c03Spec.Templates[m]
	tr, okR := c03Spec.Triggers[m]
	if !okT && !okR {
		return analyzer.BuiltinImport{}, false, false
	}
	switch k {
	case pAst.IMPORT_KIND_TEMPLATE:
		t := tm[v]
		if t == nil {
			return analyzer.BuiltinImport{}, true, false
		}
		spec := &ast.TemplateSpec{BaseMethods: map[string]ast.TemplateMethod{}, Capabilities: map[string]ast.TemplateCapability{}, DefaultCapabilities: append([]string{}, t.Default...), Span: sp}
		for name, meth := range t.Methods {
			mod := pAst.FN_MODIFIER_NONE
			switch meth.Mod {
			case "pub":
				mod = pAst.FN_MODIFIER_PUB
			case "event":
				mod = pAst.FN_MODIFIER_EVENT
			}
			spec.BaseMethods[name] = ast.TemplateMethod{Signature: astFn(meth.Params, meth.Ret, sp), Modifier: mod}
		}
		for name, c := range t.Capabilities {
			tc := ast.TemplateCapability{RequiresMethods: append([]string{}, c.Requires...)}
			for _, o := range c.Conflicts {
				tc.ConflictsWithCapabilities = append(tc.ConflictsWithCapabilities, ast.TemplateConflict{ConflictingCapability: o})
			}
			spec.Capabilities[name] = tc
		}
		return analyzer.BuiltinImport{Template: spec}, true, true
	case pAst.IMPORT_KIND_TRIGGER:
		t := tr[v]
		if t == nil {
			return analyzer.BuiltinImport{}, true, false
		}
		return analyzer.BuiltinImport{Trigger: &analyzer.TriggerFunction{
			TriggerFnType:  astFn(t.Args, nil, sp),
			CallbackFnType: astFn(t.Callback, nil, sp),
			Connective:     pAst.AtTriggerDispatchKeyword,
			ImportedAt:     sp,
		}}, true, true
	}
	return analyzer.BuiltinImport{}, true, false
}

func c03Scope() map[string]analyzer.Variable {
	all := hms.TestingAnalyzerScopeAdditions()
	m := map[string]analyzer.Variable{}
	for _, n := range []string{"print", "println", "assert"} {
		m[n] = all[n]
	}
	return m
}

// c03Diag is one error-level diagnostic.
type c03Diag struct {
	Msg  string
	Span herrors.Span
}

// c03Analysis is the outcome of the real front end on one module set.
type c03Analysis struct {
	Mods      map[string]ast.AnalyzedProgram
	Errors    []c03Diag
	Syntax    []string
	Panic     string
	PanicSite string
}

// analyzeC03 runs the real analyzer on mods["main"] with the C03 host.
func analyzeC03(mods map[string]string, mainRequired bool) (a c03Analysis) {
	defer func() {
		if r := recover(); r != nil {
			a.Panic = fmt.Sprint(r)
			if a.Panic == "" {
				a.Panic = "(empty panic)"
			}
			a.PanicSite = vsched.RepoFrames(string(debug.Stack()))
		}
	}()
	am, diags, syn := hms.Analyze(hms.InputProgram{ProgramText: mods["main"], Filename: "main"}, c03Scope(), c03Host{mods}, mainRequired)
	a.Mods = am
	for _, s := range syn {
		a.Syntax = append(a.Syntax, s.Message)
	}
	for _, d := range diags {
		if d.Level == diagnostic.DiagnosticLevelError {
			a.Errors = append(a.Errors, c03Diag{d.Message, d.Span})
		}
	}
	return a
}

func (a c03Analysis) messages() []string {
	var out []string
	for _, e := range a.Errors {
		out = append(out, e.Msg)
	}
	sort.Strings(out)
	return out
}
