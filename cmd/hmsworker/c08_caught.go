package main

import (
	"fmt"
	"strings"

	"hmsverif/internal/hs"
)

// C08, what a catch block is told about the exception: `e.filename`, `e.line` and `e.column`
// name a location inside the construct that raised the exception, in the text of the module that
// contains it - whichever module catches. The raising construct sits in main, in an imported module
// or in a module imported by that one; the handler sits in main or in the intermediate module; the
// modules have different numbers of lines before the construct, so that a position in one file is
// not a position of the construct in another.

var c08CaughtFaults = []struct{ name, stmt string }{
	{"throw", "«throw(\"failed\")»;"},
	{"index-out-of-range", "let l = [1, 2];\n    println(«l[n + 5]»);"},
	{"division-by-zero", "println(«10 / (n - n)»);"},
	{"unwrap-of-none", "let o: ?int = none;\n    println(«o.unwrap()»);"},
}
var c08CaughtThrowers = []string{"main", "lib", "deep"}
var c08CaughtCatchers = []string{"main", "lib"}

func c08CaughtCount() int {
	return len(c08CaughtFaults) * len(c08CaughtThrowers) * len(c08CaughtCatchers) * 2
}

func c08CaughtRun(idx int, r *Result) {
	d := radix(idx, 2, len(c08CaughtCatchers), len(c08CaughtThrowers), len(c08CaughtFaults))
	pad, catcher, thrower, fault := d[0], c08CaughtCatchers[d[1]], c08CaughtThrowers[d[2]], c08CaughtFaults[d[3]]
	if catcher == "lib" && thrower == "main" {
		r.Note("inapplicable", 1)
		return
	}
	failFn := "fn fail(n: int) {\n    println(\"in fail\", n);\n    " + fault.stmt + "\n    println(\"not here\");\n}\n"
	pubFail := "pub " + failFn
	padding := strings.Repeat("// padding é\n", 4*pad+1)
	handler := func(call string) string {
		return "    try {\n        " + call + "\n        println(\"not here either\");\n    } catch e {\n        println(\"caught\", e.filename, e.line, e.column);\n    }\n"
	}
	marked := map[string]string{}
	switch thrower {
	case "main":
		marked["main"] = padding + failFn + "fn main() {\n" + handler("fail(1);") + "    println(\"end\");\n}\n"
	case "lib":
		marked["lib"] = padding + padding + pubFail + "pub fn guarded(n: int) {\n" + handler("fail(n);") + "}\nfn main() {}\n"
	case "deep":
		marked["deep"] = padding + padding + padding + "// one more\n" + pubFail + "fn main() {}\n"
		marked["lib"] = "import { fail } from deep;\npub fn relay(n: int) {\n    fail(n);\n}\npub fn guarded(n: int) {\n" + handler("fail(n);") + "}\nfn main() {}\n"
	}
	if thrower != "main" {
		if catcher == "main" {
			entry := map[string]string{"lib": "fail", "deep": "relay"}[thrower]
			marked["main"] = "import { " + entry + " } from lib;\nfn main() {\n" + handler(entry+"(1);") + "    println(\"end\");\n}\n"
		} else {
			marked["main"] = "import { guarded } from lib;\nfn main() {\n    guarded(1);\n    println(\"end\");\n}\n"
		}
	}
	mods := map[string]string{}
	var rng hs.Rng
	var culprit string
	for name, m := range marked {
		i := strings.Index(m, "«")
		if i < 0 {
			mods[name] = m
			continue
		}
		j := strings.Index(m, "»")
		before := m[:i]
		culprit = m[i+len("«") : j]
		mods[name] = before + culprit + m[j+len("»"):]
		line, col := 1, 1
		adv := func(s string) {
			for _, ru := range s {
				if ru == '\n' {
					line++
					col = 1
				} else {
					col++
				}
			}
		}
		adv(before)
		cs := hs.Pos{Line: line, Col: col}
		cr := []rune(culprit)
		adv(string(cr[:len(cr)-1]))
		rng = hs.Rng{Start: cs, End: hs.Pos{Line: line, Col: col}}
	}
	tags := []string{"fault:" + fault.name, "raised-in:" + thrower, "caught-in:" + catcher}
	cas := detText(detProg{Mods: mods})
	r.Sample(cas)
	a := Analyze(mods, true)
	if a.Obs.Class == "HOST-PANIC" || !a.Obs.Accepted() {
		r.Fail("HARNESS:caught-position program not accepted", tags, cas, a.Obs.String())
		return
	}
	for _, backend := range []string{"vm", "tree"} {
		o := runOn(backend, a, r)
		btags := append([]string{"backend:" + backend}, tags...)
		if crashClass(o) != "" {
			r.Note("caught-position:crash(C02)", 1)
			continue
		}
		k := strings.Index(o.Out, "caught ")
		if o.Class != "ok" || k < 0 {
			r.Note("caught-position:not-catchable("+backend+","+fault.name+")", 1)
			continue
		}
		var file string
		var l, c int
		fmt.Sscanf(o.Out[k:], "caught %s %d %d", &file, &l, &c)
		r.Distinct(fmt.Sprintf("caughtpos|%s|%s|%s %d:%d", backend, strings.Join(tags, ","), file, l, c))
		r.Outcome(backend + ":caught")
		if file != thrower {
			r.Fail("SPAN:caught-position:names another file than the module that raised the exception", btags, cas, fmt.Sprintf("e.filename = %q, raised in %q at %d:%d-%d:%d (%q)", file, thrower, rng.Start.Line, rng.Start.Col, rng.End.Line, rng.End.Col, culprit))
			continue
		}
		if l < rng.Start.Line || l > rng.End.Line || (l == rng.Start.Line && c < rng.Start.Col) || (l == rng.End.Line && c > rng.End.Col) {
			r.Fail("SPAN:caught-position:outside the construct that raised the exception", btags, cas, fmt.Sprintf("caught at %s %d:%d, raised at %d:%d-%d:%d (%q)", file, l, c, rng.Start.Line, rng.Start.Col, rng.End.Line, rng.End.Col, culprit))
		}
	}
}
