// Command rewrite is the typed source-to-source rewriter that produces the `go build -overlay`
// file routing the repository's sync/chan/go/select/sleep constructs (and, optionally, ranges
// over maps) through the vsched shim. It works on the current working tree of the repository,
// so edited sources are followed. Unsupported constructs make it exit with status 2.
package main

import (
	"bytes"
	"encoding/json"
	"flag"
	"fmt"
	"go/ast"
	"go/format"
	"go/token"
	"go/types"
	"os"
	"path/filepath"
	"strings"

	"golang.org/x/tools/go/ast/astutil"
	"golang.org/x/tools/go/packages"
)

const shimPath = "github.com/smarthome-go/homescript/v3/homescript/vsched"

var (
	outDir   = flag.String("out", "", "output dir")
	shimDir  = flag.String("shim", "", "dir with shim sources")
	doSched  = flag.String("sched", "", "comma separated package suffixes to apply sync/chan rewriting to")
	doMaps   = flag.String("maps", "", "comma separated package suffixes to apply map range rewriting to")
	repoRoot = flag.String("repo", "/repo", "repo root")
	extraDir = flag.String("extra", "", "dir with files to add to repo packages (name: path with __ for /)")
)

type stats struct {
	Sites       []string
	Unsupported []string
}

func has(list, pkg string) bool {
	for _, s := range strings.Split(list, ",") {
		if s != "" && strings.HasSuffix(pkg, s) {
			return true
		}
	}
	return false
}

func main() {
	flag.Parse()
	cfg := &packages.Config{Mode: packages.NeedName | packages.NeedFiles | packages.NeedSyntax | packages.NeedTypes | packages.NeedTypesInfo | packages.NeedImports | packages.NeedDeps, Dir: *repoRoot}
	pkgs, err := packages.Load(cfg, "./homescript/...")
	if err != nil {
		panic(err)
	}
	overlay := map[string]string{}
	st := &stats{}
	os.MkdirAll(*outDir, 0o755)
	for _, p := range pkgs {
		if len(p.Errors) > 0 {
			fmt.Fprintln(os.Stderr, "load errors in", p.PkgPath, p.Errors)
			os.Exit(2)
		}
		sched := has(*doSched, p.PkgPath)
		maps := has(*doMaps, p.PkgPath) || *doMaps == "all"
		if !sched && !maps {
			continue
		}
		for i, f := range p.Syntax {
			_ = i; name := p.Fset.Position(f.Package).Filename
			if strings.HasSuffix(name, "_test.go") {
				continue
			}
			changed := rewriteFile(p, f, sched, maps, st)
			if !changed {
				continue
			}
			astutil.AddImport(p.Fset, f, shimPath)
			for _, imp := range []string{"sync", "time"} {
				if !astutil.UsesImport(f, imp) {
					astutil.DeleteImport(p.Fset, f, imp)
				}
			}
			var buf bytes.Buffer
			if err := format.Node(&buf, p.Fset, f); err != nil {
				panic(err)
			}
			rel, _ := filepath.Rel(*repoRoot, name)
			dst := filepath.Join(*outDir, strings.ReplaceAll(rel, "/", "__"))
			os.WriteFile(dst, buf.Bytes(), 0o644)
			overlay[name] = dst
		}
	}
	shims, _ := filepath.Glob(filepath.Join(*shimDir, "*.go"))
	for _, s := range shims {
		overlay[filepath.Join(*repoRoot, "homescript/vsched", filepath.Base(s))] = s
	}
	nExtra := 0
	if *extraDir != "" {
		extras, _ := filepath.Glob(filepath.Join(*extraDir, "*.go"))
		for _, s := range extras {
			overlay[filepath.Join(*repoRoot, strings.ReplaceAll(filepath.Base(s), "__", "/"))] = s
			nExtra++
		}
	}
	b, _ := json.MarshalIndent(map[string]any{"Replace": overlay}, "", " ")
	os.WriteFile(filepath.Join(*outDir, "overlay.json"), b, 0o644)
	sb, _ := json.MarshalIndent(map[string]any{"sites": st.Sites, "unsupported": st.Unsupported, "files": len(overlay) - len(shims) - nExtra}, "", " ")
	os.WriteFile(filepath.Join(*outDir, "sites.json"), sb, 0o644)
	fmt.Printf("rewritten files: %d, sites: %d, unsupported: %d\n", len(overlay)-len(shims)-nExtra, len(st.Sites), len(st.Unsupported))
	for _, u := range st.Unsupported {
		fmt.Println("UNSUPPORTED", u)
	}
	if len(st.Unsupported) > 0 {
		os.Exit(2)
	}
}

func sel(x, name string) ast.Expr { return &ast.SelectorExpr{X: ast.NewIdent(x), Sel: ast.NewIdent(name)} }
func call(fn ast.Expr, args ...ast.Expr) *ast.CallExpr {
	return &ast.CallExpr{Fun: fn, Args: args}
}

func rewriteFile(p *packages.Package, f *ast.File, sched, maps bool, st *stats) bool {
	changed := false
	// sites are named by file and enclosing function (plus an ordinal within the function) so
	// that the names survive edits that only shift line numbers
	type fnRange struct {
		from, to token.Pos
		name     string
	}
	var fns []fnRange
	for _, d := range f.Decls {
		if fd, ok := d.(*ast.FuncDecl); ok {
			name := fd.Name.Name
			if fd.Recv != nil && len(fd.Recv.List) > 0 {
				name = types.ExprString(fd.Recv.List[0].Type) + "." + name
			}
			fns = append(fns, fnRange{fd.Pos(), fd.End(), name})
		}
	}
	ordinals := map[string]int{}
	site := func(kind string, n ast.Node) string {
		pos := p.Fset.Position(n.Pos())
		rel, err := filepath.Rel(filepath.Join(*repoRoot, "homescript"), pos.Filename)
		if err != nil {
			rel = filepath.Base(pos.Filename)
		}
		fn := "?"
		for _, r := range fns {
			if n.Pos() >= r.from && n.Pos() < r.to {
				fn = r.name
			}
		}
		key := rel + ":" + fn + ":" + kind
		ordinals[key]++
		s := fmt.Sprintf("%s#%d", key, ordinals[key])
		st.Sites = append(st.Sites, s)
		return s
	}
	isPkg := func(e ast.Expr, pkg string) bool {
		id, ok := e.(*ast.Ident)
		if !ok {
			return false
		}
		if pn, ok := p.TypesInfo.Uses[id].(*types.PkgName); ok {
			return pn.Imported().Path() == pkg
		}
		return false
	}
	tmp := 0
	fresh := func(prefix string) string { tmp++; return fmt.Sprintf("__%s%d", prefix, tmp) }

	post := func(c *astutil.Cursor) bool {
		switch n := c.Node().(type) {
		case *ast.SelectorExpr:
			if sched && isPkg(n.X, "sync") {
				switch n.Sel.Name {
				case "Mutex", "RWMutex":
					site("sync."+n.Sel.Name, n)
					c.Replace(sel("vsched", n.Sel.Name))
					changed = true
				default:
					st.Unsupported = append(st.Unsupported, site("sync."+n.Sel.Name, n))
				}
			}
			if sched && isPkg(n.X, "time") {
				switch n.Sel.Name {
				case "Sleep":
					site("time.Sleep", n)
					c.Replace(sel("vsched", "Sleep"))
					changed = true
				case "After", "NewTimer", "NewTicker", "Tick", "AfterFunc":
					st.Unsupported = append(st.Unsupported, site("time."+n.Sel.Name, n))
				}
			}
			if sched && isPkg(n.X, "sync/atomic") {
				st.Unsupported = append(st.Unsupported, site("sync/atomic."+n.Sel.Name, n))
			}
		case *ast.GoStmt:
			if sched {
				site("go", n)
				body := &ast.FuncLit{Type: &ast.FuncType{Params: &ast.FieldList{}}, Body: &ast.BlockStmt{List: []ast.Stmt{&ast.ExprStmt{X: n.Call}}}}
				c.Replace(&ast.ExprStmt{X: call(sel("vsched", "Go"), body)})
				changed = true
			}
		case *ast.SendStmt:
			if sched {
				site("send", n)
				c.Replace(&ast.ExprStmt{X: call(sel("vsched", "Send"), n.Chan, n.Value)})
				changed = true
			}
		case *ast.UnaryExpr:
			if sched && n.Op == token.ARROW {
				if _, inSelect := c.Parent().(*ast.CommClause); !inSelect {
					site("recv", n)
					c.Replace(call(sel("vsched", "Recv"), n.X))
					changed = true
				}
			}
		case *ast.CallExpr:
			if sched {
				if id, ok := n.Fun.(*ast.Ident); ok && id.Name == "close" && len(n.Args) == 1 {
					if _, isBuiltin := p.TypesInfo.Uses[id].(*types.Builtin); isBuiltin {
						site("close", n)
						c.Replace(call(sel("vsched", "Close"), n.Args[0]))
						changed = true
					}
				}
			}
		case *ast.RangeStmt:
			if maps {
				if t := p.TypesInfo.TypeOf(n.X); t != nil {
					if _, ok := t.Underlying().(*types.Map); ok {
						if mutatesRanged(n) {
							st.Unsupported = append(st.Unsupported, site("maprange(mutating)", n))
							return true
						}
						s := site("maprange", n)
						rewriteMapRange(n, s, fresh)
						changed = true
					}
				}
			}
		}
		return true
	}
	pre := func(c *astutil.Cursor) bool {
		if as, ok := c.Node().(*ast.AssignStmt); ok && sched && len(as.Lhs) == 2 && len(as.Rhs) == 1 {
			if u, ok := as.Rhs[0].(*ast.UnaryExpr); ok && u.Op == token.ARROW {
				if _, inSelect := c.Parent().(*ast.CommClause); !inSelect {
					site("recv2", as)
					as.Rhs[0] = call(sel("vsched", "Recv2"), u.X)
					changed = true
				}
			}
		}
		if n, ok := c.Node().(*ast.SelectStmt); ok && sched {
			if repl, ok := rewriteSelect(n, fresh); ok {
				site("select", n)
				c.Replace(repl)
				changed = true
			} else {
				st.Unsupported = append(st.Unsupported, site("select(shape)", n))
			}
		}
		return true
	}
	astutil.Apply(f, pre, post)
	return changed
}

// select { case x := <-ch: A; case <-d: B; case ch2 <- v: C; default: D }
// => { __c1 := vsched.RecvCase(ch); __c2 := vsched.RecvCase(d); __c3 := vsched.SendCase(ch2, v)
//      switch vsched.Select(hasDefault, __c1, __c2, __c3) { case 0: x := __c1.Val; A; case 1: B; case 2: C; default: D } }
func rewriteSelect(n *ast.SelectStmt, fresh func(string) string) (ast.Stmt, bool) {
	block := &ast.BlockStmt{}
	sw := &ast.SwitchStmt{Body: &ast.BlockStmt{}}
	var caseArgs []ast.Expr
	hasDefault := false
	idx := 0
	for _, cc := range n.Body.List {
		cl := cc.(*ast.CommClause)
		if cl.Comm == nil {
			hasDefault = true
			sw.Body.List = append(sw.Body.List, &ast.CaseClause{List: nil, Body: cl.Body})
			continue
		}
		name := fresh("c")
		var pre []ast.Stmt
		switch comm := cl.Comm.(type) {
		case *ast.SendStmt:
			block.List = append(block.List, &ast.AssignStmt{Lhs: []ast.Expr{ast.NewIdent(name)}, Tok: token.DEFINE, Rhs: []ast.Expr{call(sel("vsched", "SendCase"), comm.Chan, comm.Value)}})
		case *ast.ExprStmt:
			u, ok := comm.X.(*ast.UnaryExpr)
			if !ok || u.Op != token.ARROW {
				return nil, false
			}
			block.List = append(block.List, &ast.AssignStmt{Lhs: []ast.Expr{ast.NewIdent(name)}, Tok: token.DEFINE, Rhs: []ast.Expr{call(sel("vsched", "RecvCase"), u.X)}})
		case *ast.AssignStmt:
			if len(comm.Rhs) != 1 {
				return nil, false
			}
			u, ok := comm.Rhs[0].(*ast.UnaryExpr)
			if !ok || u.Op != token.ARROW {
				return nil, false
			}
			block.List = append(block.List, &ast.AssignStmt{Lhs: []ast.Expr{ast.NewIdent(name)}, Tok: token.DEFINE, Rhs: []ast.Expr{call(sel("vsched", "RecvCase"), u.X)}})
			rhs := []ast.Expr{sel(name, "Val")}
			if len(comm.Lhs) == 2 {
				rhs = append(rhs, sel(name, "Ok"))
			}
			pre = append(pre, &ast.AssignStmt{Lhs: comm.Lhs, Tok: comm.Tok, Rhs: rhs})
			// avoid "declared and not used" for the bound names
			if comm.Tok == token.DEFINE {
				for _, l := range comm.Lhs {
					if id, ok := l.(*ast.Ident); ok && id.Name != "_" {
						pre = append(pre, &ast.AssignStmt{Lhs: []ast.Expr{ast.NewIdent("_")}, Tok: token.ASSIGN, Rhs: []ast.Expr{ast.NewIdent(id.Name)}})
					}
				}
			}
		default:
			return nil, false
		}
		caseArgs = append(caseArgs, ast.NewIdent(name))
		sw.Body.List = append(sw.Body.List, &ast.CaseClause{List: []ast.Expr{&ast.BasicLit{Kind: token.INT, Value: fmt.Sprint(idx)}}, Body: append(pre, cl.Body...)})
		idx++
	}
	hd := "false"
	if hasDefault {
		hd = "true"
	}
	sw.Tag = call(sel("vsched", "Select"), append([]ast.Expr{ast.NewIdent(hd)}, caseArgs...)...)
	block.List = append(block.List, sw)
	// a `break` inside a select case breaks the select; inside the generated switch it breaks the switch: same meaning.
	return block, true
}

func mutatesRanged(n *ast.RangeStmt) bool {
	x := types.ExprString(n.X)
	found := false
	ast.Inspect(n.Body, func(nd ast.Node) bool {
		switch m := nd.(type) {
		case *ast.AssignStmt:
			for _, l := range m.Lhs {
				if ix, ok := l.(*ast.IndexExpr); ok && types.ExprString(ix.X) == x {
					found = true
				}
			}
		case *ast.CallExpr:
			if id, ok := m.Fun.(*ast.Ident); ok && id.Name == "delete" && len(m.Args) > 0 && types.ExprString(m.Args[0]) == x {
				found = true
			}
		}
		return true
	})
	return found
}

// for k, v := range m { body }  =>  for _, __k := range vsched.MapKeys(m, "site") { k := __k; v := m[__k]; body }
func rewriteMapRange(n *ast.RangeStmt, site string, fresh func(string) string) {
	kname := fresh("k")
	mname := fresh("m")
	var pre []ast.Stmt
	define := n.Tok == token.DEFINE
	tok := n.Tok
	if n.Key != nil {
		if id, ok := n.Key.(*ast.Ident); !ok || id.Name != "_" {
			pre = append(pre, &ast.AssignStmt{Lhs: []ast.Expr{n.Key}, Tok: tok, Rhs: []ast.Expr{ast.NewIdent(kname)}})
			if define {
				pre = append(pre, &ast.AssignStmt{Lhs: []ast.Expr{ast.NewIdent("_")}, Tok: token.ASSIGN, Rhs: []ast.Expr{n.Key}})
			}
		}
	}
	if n.Value != nil {
		if id, ok := n.Value.(*ast.Ident); !ok || id.Name != "_" {
			pre = append(pre, &ast.AssignStmt{Lhs: []ast.Expr{n.Value}, Tok: tok, Rhs: []ast.Expr{&ast.IndexExpr{X: ast.NewIdent(mname), Index: ast.NewIdent(kname)}}})
			if define {
				pre = append(pre, &ast.AssignStmt{Lhs: []ast.Expr{ast.NewIdent("_")}, Tok: token.ASSIGN, Rhs: []ast.Expr{n.Value}})
			}
		}
	}
	// evaluate the map expression once, as range does
	orig := n.X
	n.Key = ast.NewIdent("_")
	n.Value = ast.NewIdent(kname)
	n.Tok = token.DEFINE
	n.X = call(sel("vsched", "MapKeys"), orig, &ast.BasicLit{Kind: token.STRING, Value: fmt.Sprintf("%q", site)})
	// bind the map to a name visible in the body: wrap via closure-free trick: MapKeys returns keys; value lookups use the original expression
	// (re-evaluating a pure selector expression); use the original expression textually instead of a temp to keep this a statement-local rewrite.
	for _, s := range pre {
		if as, ok := s.(*ast.AssignStmt); ok {
			for i, r := range as.Rhs {
				if ix, ok := r.(*ast.IndexExpr); ok {
					if id, ok := ix.X.(*ast.Ident); ok && id.Name == mname {
						as.Rhs[i] = &ast.IndexExpr{X: orig, Index: ix.Index}
					}
				}
			}
		}
	}
	n.Body.List = append(pre, n.Body.List...)
}
