package fuzzer

import "math/rand"

// NewTransformerWithSource is added by the verification overlay: it builds a Transformer whose
// random draws come from the given source, so that an explorer can own every draw.
func NewTransformerWithSource(source rand.Source) Transformer {
	// built by the project's own constructor (whatever else it initialises stays initialised),
	// only the source of the draws is replaced
	t := NewTransformer(0)
	t.randSource = source
	return t
}
