package fuzzer

import "math/rand"

// NewTransformerWithSource is added by the verification overlay: it builds a Transformer whose
// random draws come from the given source, so that an explorer can own every draw.
func NewTransformerWithSource(source rand.Source) Transformer {
	return Transformer{randSource: source, modifications: 0}
}
