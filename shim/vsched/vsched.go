// Package vsched is the verification shim that the overlay rewriter routes the
// repository's blocking primitives through (sync.Mutex/RWMutex, channel
// operations, select, go statements, time.Sleep and - in the mapiter variant -
// ranges over maps).  It is injected as a virtual package of the repo module
// (github.com/smarthome-go/homescript/v3/homescript/vsched) by `go build -overlay`.
//
// Two modes:
//   - free mode (no scheduler active): every operation falls through to the real
//     Go primitive, so code outside Run behaves exactly like the unmodified code;
//   - controlled mode (inside Run): a cooperative scheduler runs exactly one
//     thread at a time, every operation is a scheduling point, and every choice
//     between enabled threads goes through the Chooser so that an explorer can
//     enumerate all schedules up to a deviation bound.
package vsched

import (
	"fmt"
	"reflect"
	"runtime"
	"runtime/debug"
	"sort"
	"strings"
	"sync"
	"time"
)

// ---------------------------------------------------------------- chooser

// Point is one recorded choice point of an execution.
type Point struct {
	N      int  // number of alternatives
	Choice int  // alternative taken
	Kind   byte // 's' schedule, 'm' map order, 'r' random draw, 'e' environment
}

// Chooser owns every nondeterministic decision of one execution.
type Chooser struct {
	Prefix   []int  // choices to replay; afterwards choice 0 everywhere
	Kinds    string // kinds that are choice points in this exploration
	Points   []Point
	Diverged string // non-empty: replay saw an out-of-range choice (hard error)
	Sites    []string
	MaxLarge int // number of map ranges with more than 8 keys that were not explored
}

// C is the chooser of the execution in progress (nil: no exploration, all defaults).
var C *Chooser

// Choose returns the alternative (0..n-1) to take at this choice point.
func Choose(n int, kind byte, site string) int {
	c := C
	if c == nil || n < 2 || strings.IndexByte(c.Kinds, kind) < 0 {
		return 0
	}
	i := len(c.Points)
	ch := 0
	if i < len(c.Prefix) {
		ch = c.Prefix[i]
		if ch >= n {
			if c.Diverged == "" {
				c.Diverged = fmt.Sprintf("point %d (%s): choice %d of %d", i, site, ch, n)
			}
			ch = 0
		}
	}
	c.Points = append(c.Points, Point{N: n, Choice: ch, Kind: kind})
	c.Sites = append(c.Sites, site)
	return ch
}

// ---------------------------------------------------------------- scheduler types

type op struct {
	name    string
	obj     any
	enabled func() bool
	apply   func()
	visible bool // changes state other threads can observe
	sleep   bool
	done    bool // completed by a partner (rendezvous)
	res     any
	resOk   bool
	caseIdx int
}

type thread struct {
	low     bool // scheduled after every normal thread in the canonical order
	id      int
	wake    chan struct{}
	pend    *op
	fin     bool
	panicV  string
	sleepAt int
	forced  string
	forcedN int
}

// Exec is the outcome of one controlled execution.
type Exec struct {
	Outcome string // ok | deadlock | livelock | horizon
	Panics  []string
	Steps   int
	Blocked []string // unfinished threads and what they wait for
	Threads int
}

type chanState struct {
	cap    int
	queue  []any
	closed bool
	sends  []*thread // blocked senders (value in op.res)
	recvs  []*thread // blocked receivers (Recv or blocking Select)
}

type sched struct {
	threads []*thread
	cur     *thread
	ctl     chan struct{}
	ex      *Exec
	seq     int
	sleeps  int // number of Sleep operations executed (virtual time has no other measure)
	chans   map[uintptr]*chanState
	horizon  int
	abort    bool
	progress int // host-visible progress markers (part of the livelock state hash)
}

// S is the active scheduler; nil means free mode.
var S *sched

// LivelockK is the number of consecutive forced wake-ups of a sleeper in an unchanged state
// after which the execution is declared a livelock.
var LivelockK = 20

func chanID(ch any) uintptr { return reflect.ValueOf(ch).Pointer() }

func (s *sched) ch(id uintptr, capacity int) *chanState {
	c := s.chans[id]
	if c == nil {
		c = &chanState{cap: capacity}
		s.chans[id] = c
	}
	return c
}

// yield hands control to the scheduler with a pending operation and returns when the
// operation has been applied.
func (s *sched) yield(o *op) *op {
	if s.abort {
		return o
	}
	t := s.cur
	t.pend = o
	s.ctl <- struct{}{}
	<-t.wake
	if s.abort {
		runtime.Goexit()
	}
	return o
}

// ---------------------------------------------------------------- locks

// RWMutex replaces sync.RWMutex.
type RWMutex struct {
	real    sync.RWMutex
	w       *thread
	readers map[*thread]int
	wwait   int
}

// Mutex replaces sync.Mutex.
type Mutex struct{ rw RWMutex }

func (m *Mutex) Lock()   { m.rw.Lock() }
func (m *Mutex) Unlock() { m.rw.Unlock() }

func (m *RWMutex) nreaders() int {
	n := 0
	for _, c := range m.readers {
		n += c
	}
	return n
}

func (m *RWMutex) Lock() {
	s := S
	if s == nil {
		m.real.Lock()
		return
	}
	if s.abort {
		return
	}
	t := s.cur
	o := &op{name: "Lock", obj: m, visible: true}
	registered := false
	o.enabled = func() bool {
		if !registered { // a pending writer blocks new readers (Go's writer preference)
			registered = true
			m.wwait++
		}
		return m.w == nil && m.nreaders() == 0
	}
	o.apply = func() {
		if !registered {
			m.wwait++
		}
		m.wwait--
		m.w = t
	}
	s.yield(o)
}

func (m *RWMutex) Unlock() {
	s := S
	if s == nil {
		m.real.Unlock()
		return
	}
	if s.abort {
		return
	}
	s.yield(&op{name: "Unlock", obj: m, visible: true, apply: func() {
		if m.w == nil {
			panic("vsched: Unlock of unlocked RWMutex")
		}
		m.w = nil
	}})
}

func (m *RWMutex) RLock() {
	s := S
	if s == nil {
		m.real.RLock()
		return
	}
	if s.abort {
		return
	}
	t := s.cur
	s.yield(&op{name: "RLock", obj: m, visible: true,
		enabled: func() bool { return m.w == nil && m.wwait == 0 },
		apply: func() {
			if m.readers == nil {
				m.readers = map[*thread]int{}
			}
			m.readers[t]++
		}})
}

func (m *RWMutex) RUnlock() {
	s := S
	if s == nil {
		m.real.RUnlock()
		return
	}
	if s.abort {
		return
	}
	t := s.cur
	s.yield(&op{name: "RUnlock", obj: m, visible: true, apply: func() {
		// Go does not track reader identity: any goroutine may release a read lock.
		victim := t
		if m.readers[t] == 0 {
			var ids []*thread
			for r := range m.readers {
				ids = append(ids, r)
			}
			if len(ids) == 0 {
				panic("vsched: RUnlock of unlocked RWMutex")
			}
			sort.Slice(ids, func(i, j int) bool { return ids[i].id < ids[j].id })
			victim = ids[0]
		}
		m.readers[victim]--
		if m.readers[victim] == 0 {
			delete(m.readers, victim)
		}
	}})
}

// LockState describes the lock for residue checks: "free", "W", "R<n>".
func (m *RWMutex) LockState() string {
	if m.w != nil {
		return "W"
	}
	if n := m.nreaders(); n > 0 {
		return fmt.Sprintf("R%d", n)
	}
	return "free"
}

// ---------------------------------------------------------------- channels

// Send replaces `ch <- v`.
func Send[T any](ch chan<- T, v T) {
	s := S
	if s == nil {
		ch <- v
		return
	}
	if s.abort {
		return
	}
	if ch == nil {
		s.yield(&op{name: "Send(nil chan)", enabled: func() bool { return false }})
		return
	}
	t := s.cur
	id := chanID(ch)
	c := s.ch(id, cap(ch))
	o := &op{name: "Send", obj: id, visible: true, res: v}
	registered := false
	o.enabled = func() bool {
		if c.closed {
			return true // will panic, as in Go
		}
		if !registered {
			registered = true
			c.sends = append(c.sends, t)
		}
		return o.done || len(c.queue) < c.cap || len(c.recvs) > 0
	}
	o.apply = func() {
		c.sends = removeT(c.sends, t)
		if o.done {
			return
		}
		if c.closed {
			panic("send on closed channel")
		}
		if len(c.recvs) > 0 {
			r := c.recvs[0]
			s.unregisterRecv(r)
			r.pend.res, r.pend.resOk, r.pend.done = any(v), true, true
			r.pend.caseIdx = r.pend.caseFor(id)
			return
		}
		c.queue = append(c.queue, any(v))
	}
	s.yield(o)
}

type recvReg struct {
	ids []uintptr
}

func (o *op) caseFor(id uintptr) int {
	if rr, ok := o.obj.(*recvReg); ok {
		for i, x := range rr.ids {
			if x == id {
				return i
			}
		}
	}
	return 0
}

func (s *sched) unregisterRecv(t *thread) {
	for _, c := range s.chans {
		c.recvs = removeT(c.recvs, t)
	}
}

// tryRecv takes a value from channel id if one is available right now.
func (s *sched) tryRecv(id uintptr) (v any, ok bool, got bool) {
	c := s.chans[id]
	if c == nil {
		return nil, false, false
	}
	if len(c.queue) > 0 {
		v = c.queue[0]
		c.queue = c.queue[1:]
		// a sender blocked on a full buffer can now deposit its value
		if len(c.sends) > 0 {
			w := c.sends[0]
			c.sends = c.sends[1:]
			c.queue = append(c.queue, w.pend.res)
			w.pend.done = true
		}
		return v, true, true
	}
	if len(c.sends) > 0 {
		w := c.sends[0]
		c.sends = c.sends[1:]
		v = w.pend.res
		w.pend.done = true
		return v, true, true
	}
	if c.closed {
		return nil, false, true
	}
	return nil, false, false
}

func (s *sched) canRecv(id uintptr) bool {
	c := s.chans[id]
	return c != nil && (len(c.queue) > 0 || len(c.sends) > 0 || c.closed)
}

func recvOp[T any](ch <-chan T) (T, bool) {
	s := S
	var z T
	if ch == nil {
		s.yield(&op{name: "Recv(nil chan)", enabled: func() bool { return false }})
		return z, false
	}
	t := s.cur
	id := chanID(ch)
	c := s.ch(id, cap(ch))
	o := &op{name: "Recv", visible: true}
	o.obj = &recvReg{ids: []uintptr{id}}
	registered := false
	o.enabled = func() bool {
		if o.done {
			return true
		}
		if s.canRecv(id) {
			return true
		}
		if !registered {
			registered = true
			c.recvs = append(c.recvs, t)
		}
		return false
	}
	o.apply = func() {
		if o.done {
			return
		}
		s.unregisterRecv(t)
		v, ok, _ := s.tryRecv(id)
		o.res, o.resOk = v, ok
	}
	s.yield(o)
	if o.res == nil {
		return z, o.resOk
	}
	return o.res.(T), o.resOk
}

// Recv replaces `<-ch`.
func Recv[T any](ch <-chan T) T {
	if S == nil {
		return <-ch
	}
	if S.abort {
		var z T
		return z
	}
	v, _ := recvOp(ch)
	return v
}

// Recv2 replaces `v, ok := <-ch`.
func Recv2[T any](ch <-chan T) (T, bool) {
	if S == nil {
		v, ok := <-ch
		return v, ok
	}
	if S.abort {
		var z T
		return z, false
	}
	return recvOp(ch)
}

// Close replaces close(ch). It also closes the real channel so that free-mode
// readers observe it.
func Close[T any](ch chan T) {
	s := S
	if s == nil {
		close(ch)
		return
	}
	if s.abort {
		return
	}
	id := chanID(ch)
	c := s.ch(id, cap(ch))
	s.yield(&op{name: "Close", obj: id, visible: true, apply: func() {
		if c.closed {
			panic("close of closed channel")
		}
		c.closed = true
		close(ch)
		for _, r := range append([]*thread{}, c.recvs...) {
			if len(c.queue) == 0 {
				s.unregisterRecv(r)
				r.pend.res, r.pend.resOk, r.pend.done = nil, false, true
				r.pend.caseIdx = r.pend.caseFor(id)
			}
		}
	}})
}

// SelCase is one communication clause of a rewritten select statement.
type SelCase interface {
	id() uintptr
	isSend() bool
	sendVal() any
	deliver(v any, ok bool)
	realCase() reflect.SelectCase
	capacity() int
}

// RCase is a receive clause.
type RCase[T any] struct {
	ch  <-chan T
	Val T
	Ok  bool
}

func (c *RCase[T]) id() uintptr {
	if c.ch == nil {
		return 0
	}
	return chanID(c.ch)
}
func (c *RCase[T]) isSend() bool { return false }
func (c *RCase[T]) sendVal() any { return nil }
func (c *RCase[T]) capacity() int { return cap(c.ch) }
func (c *RCase[T]) deliver(v any, ok bool) {
	c.Ok = ok
	if v != nil {
		c.Val = v.(T)
	}
}
func (c *RCase[T]) realCase() reflect.SelectCase {
	return reflect.SelectCase{Dir: reflect.SelectRecv, Chan: reflect.ValueOf(c.ch)}
}

// RecvCase builds a receive clause.
func RecvCase[T any](ch <-chan T) *RCase[T] { return &RCase[T]{ch: ch} }

// SCase is a send clause.
type SCase[T any] struct {
	ch chan<- T
	v  T
}

func (c *SCase[T]) id() uintptr {
	if c.ch == nil {
		return 0
	}
	return chanID(c.ch)
}
func (c *SCase[T]) isSend() bool         { return true }
func (c *SCase[T]) sendVal() any         { return c.v }
func (c *SCase[T]) capacity() int        { return cap(c.ch) }
func (c *SCase[T]) deliver(v any, ok bool) {}
func (c *SCase[T]) realCase() reflect.SelectCase {
	return reflect.SelectCase{Dir: reflect.SelectSend, Chan: reflect.ValueOf(c.ch), Send: reflect.ValueOf(c.v)}
}

// SendCase builds a send clause.
func SendCase[T any](ch chan<- T, v T) *SCase[T] { return &SCase[T]{ch: ch, v: v} }

// Select replaces a select statement; it returns the index of the clause taken or -1 for default.
func Select(hasDefault bool, cases ...SelCase) int {
	s := S
	if s == nil {
		rc := make([]reflect.SelectCase, 0, len(cases)+1)
		for _, c := range cases {
			rc = append(rc, c.realCase())
		}
		if hasDefault {
			rc = append(rc, reflect.SelectCase{Dir: reflect.SelectDefault})
		}
		i, v, ok := reflect.Select(rc)
		if i == len(cases) {
			return -1
		}
		if !cases[i].isSend() {
			if v.IsValid() {
				cases[i].deliver(v.Interface(), ok)
			} else {
				cases[i].deliver(nil, ok)
			}
		}
		return i
	}
	if s.abort {
		return -1
	}
	t := s.cur
	ids := make([]uintptr, len(cases))
	for i, c := range cases {
		ids[i] = c.id()
		if ids[i] != 0 {
			s.ch(ids[i], c.capacity())
		}
	}
	ready := func() int {
		for i, c := range cases {
			if ids[i] == 0 {
				continue
			}
			cs := s.chans[ids[i]]
			if c.isSend() {
				if cs.closed || len(cs.queue) < cs.cap || len(cs.recvs) > 0 {
					return i
				}
			} else if s.canRecv(ids[i]) {
				return i
			}
		}
		return -1
	}
	o := &op{name: "Select", obj: &recvReg{ids: ids}, caseIdx: -1}
	registered := false
	o.enabled = func() bool {
		if hasDefault || o.done {
			return true
		}
		if ready() >= 0 {
			return true
		}
		if !registered {
			registered = true
			for i, c := range cases {
				if ids[i] != 0 && !c.isSend() {
					cs := s.chans[ids[i]]
					cs.recvs = append(cs.recvs, t)
				}
				// blocking select with send clauses: senders are not registered as
				// rendezvous partners (not needed by the repository today).
			}
		}
		return false
	}
	o.apply = func() {
		if o.done {
			o.visible = true
			return
		}
		s.unregisterRecv(t)
		i := ready()
		o.caseIdx = i
		if i < 0 {
			return // default taken: nothing observable changes
		}
		o.visible = true
		c := cases[i]
		cs := s.chans[ids[i]]
		if c.isSend() {
			if cs.closed {
				panic("send on closed channel")
			}
			if len(cs.recvs) > 0 {
				r := cs.recvs[0]
				s.unregisterRecv(r)
				r.pend.res, r.pend.resOk, r.pend.done = c.sendVal(), true, true
				r.pend.caseIdx = r.pend.caseFor(ids[i])
			} else {
				cs.queue = append(cs.queue, c.sendVal())
			}
			return
		}
		v, ok, _ := s.tryRecv(ids[i])
		o.res, o.resOk = v, ok
	}
	s.yield(o)
	if o.caseIdx >= 0 && !cases[o.caseIdx].isSend() {
		cases[o.caseIdx].deliver(o.res, o.resOk)
	}
	return o.caseIdx
}

// ---------------------------------------------------------------- sleep, spawn, steps

// Sleep replaces time.Sleep: virtual time. The sleeper is re-enabled when another thread
// has made a visible step, or when nothing else can run (time passes).
func Sleep(d time.Duration) {
	s := S
	if s == nil {
		time.Sleep(d)
		return
	}
	if s.abort {
		return
	}
	t := s.cur
	t.sleepAt = s.seq
	s.sleeps++
	s.yield(&op{name: "Sleep", sleep: true, enabled: func() bool { return s.seq > t.sleepAt }})
}

// Step is an explicit visible scheduling point (used by harness threads, e.g. the canceller).
func Step(name string) {
	s := S
	if s == nil || s.abort {
		return
	}
	s.yield(&op{name: name, visible: true})
}

// PanicHook, when set in free mode, receives panics of goroutines started through Go.
var PanicHook func(msg string)

// GoLow starts a low-priority thread: in the canonical order it comes after every normal
// thread, so by default it runs only when nothing else can (used for environment threads
// such as the host's canceller: "cancel at point k" is then exactly one deviation).
func GoLow(f func()) {
	s := S
	if s == nil || s.abort {
		go f()
		return
	}
	nt := &thread{id: len(s.threads), wake: make(chan struct{}), low: true}
	s.threads = append(s.threads, nt)
	nt.pend = &op{name: "Start", visible: true}
	go s.body(nt, f)
	s.yield(&op{name: "Go", visible: true})
}

// Sleeps returns the number of Sleep operations executed so far in this execution (by all
// threads): the only measure of elapsed virtual time.
func Sleeps() int {
	if S == nil {
		return 0
	}
	return S.sleeps
}

// Steps returns the number of scheduling steps executed so far in this execution.
func Steps() int {
	if S == nil {
		return 0
	}
	return S.ex.Steps
}

// Go replaces the go statement.
func Go(f func()) {
	s := S
	if s == nil {
		go func() {
			if PanicHook != nil {
				defer func() {
					if r := recover(); r != nil {
						PanicHook(fmt.Sprintf("%v\n%s", r, RepoFrames(string(debug.Stack()))))
					}
				}()
			}
			f()
		}()
		return
	}
	if s.abort {
		return
	}
	nt := &thread{id: len(s.threads), wake: make(chan struct{})}
	s.threads = append(s.threads, nt)
	nt.pend = &op{name: "Start", visible: true}
	go s.body(nt, f)
	s.yield(&op{name: "Go", visible: true})
}

func (s *sched) body(t *thread, f func()) {
	<-t.wake
	if s.abort {
		return
	}
	normal := false
	defer func() {
		if s.abort {
			return
		}
		if !normal {
			if r := recover(); r != nil {
				t.panicV = fmt.Sprintf("%v\n%s", r, RepoFrames(string(debug.Stack())))
			}
		}
		t.fin = true
		t.pend = nil
		s.seq++
		s.ctl <- struct{}{}
	}()
	f()
	normal = true
}

// RepoFrames extracts the first frames that lie in the repository from a stack dump.
func RepoFrames(st string) string {
	lines := strings.Split(st, "\n")
	var out []string
	for i := 0; i+1 < len(lines); i++ {
		l := lines[i+1]
		if strings.Contains(l, "/repo/") && !strings.Contains(l, "/vsched/") {
			fn := strings.TrimSpace(lines[i])
			if p := strings.LastIndex(fn, "("); p > 0 {
				fn = fn[:p]
			}
			loc := strings.TrimSpace(l)
			if p := strings.Index(loc, " +0x"); p > 0 {
				loc = loc[:p]
			}
			out = append(out, fn+" "+loc)
			if len(out) == 3 {
				break
			}
		}
	}
	return strings.Join(out, " | ")
}

func removeT(l []*thread, t *thread) []*thread {
	out := l[:0]
	for _, x := range l {
		if x != t {
			out = append(out, x)
		}
	}
	return out
}

// ---------------------------------------------------------------- scheduler loop

func (s *sched) isEnabled(t *thread) bool {
	if t.fin || t.pend == nil {
		return false
	}
	if t.pend.done {
		return true
	}
	if t.pend.enabled == nil {
		return true
	}
	return t.pend.enabled()
}

// Progress marks host-visible progress (output written, trigger registered): a sleeping
// poller observing such progress is not in a livelock.
func Progress() {
	if s := S; s != nil {
		s.progress++
	}
}

func (s *sched) stateHash() string {
	var b strings.Builder
	fmt.Fprintf(&b, "p%d;", s.progress)
	for _, t := range s.threads {
		if t.fin {
			fmt.Fprintf(&b, "%d:fin;", t.id)
		} else if t.pend != nil {
			fmt.Fprintf(&b, "%d:%s:%p:%v;", t.id, t.pend.name, t.pend.obj, t.pend.done)
		}
	}
	ids := make([]uintptr, 0, len(s.chans))
	for id := range s.chans {
		ids = append(ids, id)
	}
	sort.Slice(ids, func(i, j int) bool { return ids[i] < ids[j] })
	for _, id := range ids {
		c := s.chans[id]
		fmt.Fprintf(&b, "c%x:%d:%v:%d:%d;", id, len(c.queue), c.closed, len(c.sends), len(c.recvs))
	}
	return b.String()
}

// Run executes body as thread 0 under the cooperative scheduler. Scheduling choices go
// through the chooser C (kind 's'); with C == nil the default schedule is taken: keep
// running the current thread while it is enabled, else the enabled thread with the lowest id.
func Run(horizon int, body func()) *Exec {
	if S != nil {
		panic("vsched: nested Run")
	}
	s := &sched{ctl: make(chan struct{}), ex: &Exec{}, chans: map[uintptr]*chanState{}, horizon: horizon}
	S = s
	defer func() { S = nil }()
	t0 := &thread{id: 0, wake: make(chan struct{}), pend: &op{name: "Start", visible: true}}
	s.threads = append(s.threads, t0)
	go s.body(t0, body)
	s.cur = t0
	for {
		if s.ex.Steps > horizon {
			s.ex.Outcome = "horizon"
			break
		}
		var en []*thread
		if s.cur != nil && s.isEnabled(s.cur) {
			en = append(en, s.cur)
		}
		for _, t := range s.threads {
			if t != s.cur && !t.low && s.isEnabled(t) {
				en = append(en, t)
			}
		}
		for _, t := range s.threads {
			if t != s.cur && t.low && s.isEnabled(t) {
				en = append(en, t)
			}
		}
		if len(en) == 0 {
			alive := false
			var sleepers []*thread
			for _, t := range s.threads {
				if !t.fin {
					alive = true
					if t.pend != nil && t.pend.sleep {
						sleepers = append(sleepers, t)
					}
				}
			}
			if !alive {
				s.ex.Outcome = "ok"
				break
			}
			if len(sleepers) == 0 {
				s.ex.Outcome = "deadlock"
				break
			}
			h := s.stateHash()
			t := sleepers[0]
			if t.forced == h {
				t.forcedN++
				if t.forcedN >= LivelockK {
					s.ex.Outcome = "livelock"
					break
				}
			} else {
				t.forced = h
				t.forcedN = 0
			}
			t.sleepAt = -1 // time passes
			continue
		}
		choice := 0
		if len(en) > 1 {
			choice = Choose(len(en), 's', "")
		}
		s.step(en[choice])
	}
	for _, t := range s.threads {
		if t.panicV != "" {
			s.ex.Panics = append(s.ex.Panics, fmt.Sprintf("T%d: %s", t.id, t.panicV))
		}
		if !t.fin && t.pend != nil {
			s.ex.Blocked = append(s.ex.Blocked, fmt.Sprintf("T%d@%s", t.id, t.pend.name))
		}
	}
	s.ex.Threads = len(s.threads)
	// release parked goroutines of unfinished threads so they do not accumulate
	s.abort = true
	for _, t := range s.threads {
		if !t.fin {
			select {
			case t.wake <- struct{}{}:
			default:
			}
		}
	}
	return s.ex
}

// Trace, when non-nil, receives one entry per scheduling step ("T<id>:<op>").
var Trace *[]string

func (s *sched) step(t *thread) {
	o := t.pend
	if Trace != nil {
		*Trace = append(*Trace, fmt.Sprintf("T%d:%s", t.id, o.name))
	}
	if o.apply != nil {
		func() {
			defer func() {
				if r := recover(); r != nil {
					// a modelled primitive was misused (unlock of unlocked mutex, send on closed channel):
					// Go would crash the process; record it against the thread.
					t.panicV = fmt.Sprintf("%v\n(primitive misuse at %s)", r, o.name)
				}
			}()
			o.apply()
		}()
	}
	if o.visible {
		s.seq++
	}
	s.ex.Steps++
	s.cur = t
	t.pend = nil
	t.wake <- struct{}{}
	<-s.ctl
}

// ---------------------------------------------------------------- map iteration order

// MapKeys returns the keys of m in the iteration order chosen for this dynamic range.
// Only rotations of one real iteration order are offered (for maps with at most 8
// entries these are exactly the orders the go1.23 runtime can produce); choice 0 is
// the rotation starting at the smallest key.
func MapKeys[M ~map[K]V, K comparable, V any](m M, site string) []K {
	keys := make([]K, 0, len(m))
	for k := range m {
		keys = append(keys, k)
	}
	n := len(keys)
	if n < 2 {
		return keys
	}
	if n > 8 {
		if C != nil {
			C.MaxLarge++
		}
		// deterministic order for large maps: sorted by printed key
		sort.Slice(keys, func(i, j int) bool { return fmt.Sprint(keys[i]) < fmt.Sprint(keys[j]) })
		return keys
	}
	// base order: the real iteration order just obtained (slot order rotated by the runtime's
	// random start), re-rotated so that it starts at the smallest key: deterministic.
	min := 0
	for i := range keys {
		if fmt.Sprint(keys[i]) < fmt.Sprint(keys[min]) {
			min = i
		}
	}
	if min != 0 {
		rotd := make([]K, 0, n)
		for i := 0; i < n; i++ {
			rotd = append(rotd, keys[(min+i)%n])
		}
		keys = rotd
	}
	rot := Choose(n, 'm', site)
	if rot == 0 {
		return keys
	}
	out := make([]K, 0, n)
	for i := 0; i < n; i++ {
		out = append(out, keys[(rot+i)%n])
	}
	return out
}

// CloseNow closes ch without a scheduling point (used by harness contexts whose Done()
// channel fires after a fixed number of polls, and by the canceller after its Step).
func CloseNow[T any](ch chan T) {
	s := S
	if s != nil && !s.abort {
		c := s.ch(chanID(ch), cap(ch))
		if c.closed {
			return
		}
		c.closed = true
		s.seq++
		for _, r := range append([]*thread{}, c.recvs...) {
			if len(c.queue) == 0 {
				s.unregisterRecv(r)
				r.pend.res, r.pend.resOk, r.pend.done = nil, false, true
				r.pend.caseIdx = r.pend.caseFor(chanID(ch))
			}
		}
	}
	defer func() { recover() }() // already closed in free mode
	close(ch)
}

// Active reports whether a controlled execution is in progress.
func Active() bool { return S != nil }

// CurrentThread returns the id of the running thread (controlled mode) or -1.
func CurrentThread() int {
	if S == nil || S.cur == nil {
		return -1
	}
	return S.cur.id
}

// Unfinished returns the number of threads other than the caller that have not finished.
func Unfinished() int {
	s := S
	if s == nil {
		return 0
	}
	n := 0
	for _, t := range s.threads {
		if !t.fin && t != s.cur && !(t.pend != nil && t.pend.done && t.pend.name == "Send") {
			// a thread whose final send has already been taken by a receiver only has to exit
			n++
		}
	}
	return n
}

// UnfinishedDesc describes the unfinished threads other than the caller.
func UnfinishedDesc() string {
	s := S
	if s == nil {
		return ""
	}
	var parts []string
	for _, t := range s.threads {
		if !t.fin && t != s.cur && !(t.pend != nil && t.pend.done && t.pend.name == "Send") {
			n := "running"
			if t.pend != nil {
				n = t.pend.name
			}
			parts = append(parts, fmt.Sprintf("T%d@%s", t.id, n))
		}
	}
	return strings.Join(parts, ",")
}
