package vsched

import "time"

// ExploreCfg bounds a stateless depth-first exploration of choice sequences.
type ExploreCfg struct {
	Bound    int    // maximum number of non-default choices (deviations) per execution
	Kinds    string // choice kinds that are explored ('s', 'm', 'r', 'e')
	Shard    int    // this process explores the level-1 subtrees with ordinal % NShards == Shard
	NShards  int
	MaxExecs int // 0: unlimited
	Deadline time.Time
}

// ExploreResult summarises an exploration.
type ExploreResult struct {
	Execs      int
	Points     int64 // choice points passed over all executions (transitions)
	MaxPoints  int
	Complete   bool   // false: MaxExecs or Deadline stopped the search early
	Diverged   string // non-empty: replay of a prefix diverged (nondeterminism escaped)
	LargeMaps  int
	BoundDone  int
}

// Explore enumerates every execution of run that differs from the default execution in at
// most cfg.Bound choices. run must be deterministic given the chooser's answers. check is
// called after each execution with the choices taken; returning false stops the search.
func Explore(cfg ExploreCfg, run func(), check func(choices []int, c *Chooser) bool) ExploreResult {
	res := ExploreResult{Complete: true}
	if cfg.NShards <= 0 {
		cfg.NShards = 1
	}
	stop := false
	ordinal := 0
	var rec func(prefix []int, devs int)
	rec = func(prefix []int, devs int) {
		if stop {
			return
		}
		if cfg.MaxExecs > 0 && res.Execs >= cfg.MaxExecs || !cfg.Deadline.IsZero() && time.Now().After(cfg.Deadline) {
			res.Complete = false
			stop = true
			return
		}
		c := &Chooser{Prefix: prefix, Kinds: cfg.Kinds}
		C = c
		run()
		C = nil
		if c.Diverged != "" {
			res.Diverged = c.Diverged
			stop = true
			return
		}
		res.LargeMaps += c.MaxLarge
		choices := make([]int, len(c.Points))
		for i, p := range c.Points {
			choices[i] = p.Choice
		}
		isRoot := len(prefix) == 0
		if !isRoot || cfg.Shard == 0 {
			res.Execs++
			res.Points += int64(len(c.Points))
			if len(c.Points) > res.MaxPoints {
				res.MaxPoints = len(c.Points)
			}
			if !check(choices, c) {
				stop = true
				return
			}
		}
		if devs >= cfg.Bound {
			return
		}
		for i := len(prefix); i < len(c.Points); i++ {
			for alt := 1; alt < c.Points[i].N; alt++ {
				if isRoot {
					ordinal++
					if (ordinal-1)%cfg.NShards != cfg.Shard {
						continue
					}
				}
				np := make([]int, i+1)
				copy(np, choices[:i])
				np[i] = alt
				rec(np, devs+1)
				if stop {
					return
				}
			}
		}
	}
	rec(nil, 0)
	res.BoundDone = cfg.Bound
	return res
}

// RunWith executes run once under the given choice prefix and returns the chooser.
func RunWith(prefix []int, kinds string, run func()) *Chooser {
	c := &Chooser{Prefix: prefix, Kinds: kinds}
	C = c
	run()
	C = nil
	return c
}
